import Gonnx.Ops.Index
import Gonnx.Spec.Index
import Gonnx.Proofs.Binary
/-
Helper lemmas for C08: Transpose, Gather, Concat, Expand, Slice models equal the ONNX index formulas.
-/
namespace Gonnx.C08
open Gonnx

/-- a 1-D int64 tensor -/
def vec (l : List Int) : Tensor Int := ⟨[l.length], l⟩

end Gonnx.C08

namespace Gonnx.Proofs.Index
open Gonnx Gonnx.Spec Gonnx.Proofs
variable {α : Type} [Inhabited α]

/-! ### Transpose -/

/-- pigeonhole: a duplicate-free list `s` inside a list `l` that is not longer covers `l` -/
theorem subset_of_nodup_of_length_le (s l : List Int) (hnd : s.Nodup) (hsub : ∀ x ∈ s, x ∈ l)
    (hlen : l.length ≤ s.length) : ∀ x ∈ l, x ∈ s := by
  induction s generalizing l with
  | nil =>
    intro x hx
    cases l with
    | nil => cases hx
    | cons a l => simp at hlen
  | cons a s ih =>
    intro x hx
    have ha : a ∈ l := hsub a (by simp)
    rw [List.nodup_cons] at hnd
    by_cases hxa : x = a
    · subst hxa; simp
    · have hx' : x ∈ l.erase a := (List.mem_erase_of_ne hxa).2 hx
      have := ih (l.erase a) hnd.2
        (by
          intro y hy
          have hya : y ≠ a := by intro h; subst h; exact hnd.1 hy
          exact (List.mem_erase_of_ne hya).2 (hsub y (by simp [hy])))
        (by rw [List.length_erase_of_mem ha]; simp at hlen; omega) x hx'
      simp [this]

theorem isPerm_nonneg {r : Nat} {perm : List Int} (hp : isPerm r perm = true) :
    ∀ p ∈ perm, 0 ≤ p := by
  simp only [isPerm, decide_eq_true_eq, List.all_eq_true, List.mem_range,
    List.contains_iff_mem] at hp
  obtain ⟨hl, hc⟩ := hp
  have hnd : ((List.range r).map fun (j : Nat) => (j : Int)).Nodup := by
    have := List.nodup_range (n := r)
    unfold List.Nodup at this ⊢
    exact this.map _ (by intro a b h h'; exact h (Int.ofNat.inj h'))
  have := subset_of_nodup_of_length_le _ perm hnd
    (by
      intro x hx
      simp only [List.mem_map, List.mem_range] at hx
      obtain ⟨j, hj, rfl⟩ := hx
      exact hc j hj)
    (by simp [hl])
  intro p hp
  have := this p hp
  simp only [List.mem_map, List.mem_range] at this
  obtain ⟨j, _, rfl⟩ := this
  exact Int.natCast_nonneg j

theorem findIdx_toNat (perm : List Int) (h : ∀ p ∈ perm, 0 ≤ p) (j : Nat) :
    (perm.map Int.toNat).findIdx (· = j) = perm.findIdx (fun p => p = (j : Int)) := by
  induction perm with
  | nil => rfl
  | cons a l ih =>
    have ha : 0 ≤ a := h a (by simp)
    have : (a.toNat = j) ↔ (a = (j : Int)) := by omega
    simp only [List.map_cons, List.findIdx_cons, ih (fun p hp => h p (by simp [hp])), this]

theorem transpose_eq_spec (t : Tensor α) (perm : List Int) (hp : isPerm t.shape.length perm = true) :
    ∃ s, Spec.transpose t perm = some s ∧ transposeOp t perm = .ok s := by
  have hnn := isPerm_nonneg hp
  have hp' := hp
  simp only [isPerm, decide_eq_true_eq] at hp'
  unfold Spec.transpose
  simp only [hp, if_true]
  refine ⟨_, rfl, ?_⟩
  unfold transposeOp gTranspose
  simp only [hp'.1, ne_eq, not_true_eq_false, if_false, hp'.2, if_true, permute]
  congr 1
  simp only [List.map_map]
  congr 1
  funext idx
  congr 1
  apply List.map_congr_left
  intro j _
  rw [findIdx_toNat perm hnn j]

theorem transpose_wrong_length (t : Tensor α) (perm : List Int) (h : perm.length ≠ t.shape.length) :
    transposeOp t perm = .error .gorgonia ∧ Spec.transpose t perm = none := by
  constructor
  · unfold transposeOp gTranspose
    simp [h]
  · unfold Spec.transpose isPerm
    simp [h]

/-! ### Gather -/

omit [Inhabited α] in
theorem toOption_ite_not (b : Bool) (e : Err) (x : α) :
    (if (!b) = true then (.error e : Res α) else .ok x).toOption = if b = true then some x else none := by
  cases b <;> rfl

omit [Inhabited α] in
theorem ite_not_of_none (b : Bool) (e : Err) (x : α)
    (h : (if b = true then some x else none) = none) :
    (if (!b) = true then (.error e : Res α) else .ok x) = .error e := by
  cases b
  · rfl
  · simp at h

theorem gather_eq_spec (data : Tensor α) (indices : Tensor Int) (axis : Int) :
    (gatherOp data indices axis).toOption = Spec.gather data indices axis := by
  simp only [gatherOp, Spec.gather]
  have h1 : (axis < -(data.shape.length : Int) ∨ axis > (data.shape.length : Int) - 1) ↔
      (axis < -(data.shape.length : Int) ∨ axis ≥ (data.shape.length : Int)) := by omega
  have h2 : ∀ (n k : Int), (-n ≤ k ∧ k ≤ n - 1) ↔ (-n ≤ k ∧ k < n) := by intros; omega
  simp only [h1, h2]
  by_cases ha : axis < -(data.shape.length : Int) ∨ axis ≥ (data.shape.length : Int)
  · simp only [ha, if_true]; rfl
  · simp only [ha, if_false]
    rw [toOption_ite_not]

theorem gather_error (data : Tensor α) (indices : Tensor Int) (axis : Int)
    (h : Spec.gather data indices axis = none) : gatherOp data indices axis = .error .axis := by
  simp only [gatherOp, Spec.gather] at h ⊢
  have h1 : (axis < -(data.shape.length : Int) ∨ axis > (data.shape.length : Int) - 1) ↔
      (axis < -(data.shape.length : Int) ∨ axis ≥ (data.shape.length : Int)) := by omega
  have h2 : ∀ (n k : Int), (-n ≤ k ∧ k ≤ n - 1) ↔ (-n ≤ k ∧ k < n) := by intros; omega
  simp only [h1, h2]
  by_cases ha : axis < -(data.shape.length : Int) ∨ axis ≥ (data.shape.length : Int)
  · simp only [ha, if_true]
  · simp only [ha, if_false] at h ⊢
    exact ite_not_of_none _ _ _ h

/-! ### Concat -/

theorem locate_find (ax : Nat) (idx : List Nat) (l pre : List (Tensor α)) (p : Nat) :
    (match (pre ++ l)[(gConcat.go pre.length p (l.map fun t => dim t.shape ax)).1]? with
     | some t => t.get (idx.set ax (gConcat.go pre.length p (l.map fun t => dim t.shape ax)).2)
     | none => default) = Spec.concat.find ax idx p l := by
  induction l generalizing pre p with
  | nil => simp [gConcat.go, Spec.concat.find]
  | cons t rest ih =>
    simp only [List.map_cons, gConcat.go, Spec.concat.find]
    by_cases hp : p < dim t.shape ax
    · simp [hp]
    · simp only [hp, if_false]
      have := ih (pre ++ [t]) (p - dim t.shape ax)
      simpa using this

theorem concat_eq_spec (axis : Int) (ts : List (Tensor α)) (hn : 2 ≤ ts.length)
    (s : Tensor α) (hs : Spec.concat axis ts = some s) :
    ∃ m, concatOp axis ts = .ok m ∧ Equiv m s := by
  match ts, hn with
  | t0 :: t1 :: rest, _ =>
    simp only [Spec.concat] at hs
    simp only [concatOp, gConcat]
    simp only [Int.add_comm (t0.shape.length : Int) axis]
    generalize hts : t0 :: t1 :: rest = ts at hs ⊢
    by_cases ha : axis < -(t0.shape.length : Int) ∨ axis ≥ (t0.shape.length : Int)
    · simp [ha] at hs
    · simp only [ha, if_false] at hs
      generalize hax : (if axis < 0 then axis + (t0.shape.length : Int) else axis) = ax' at hs ⊢
      have h1 : ¬ ax' = -1 := by rw [← hax]; split <;> omega
      have h2 : ¬ (ax' < 0 ∨ ax' ≥ (t0.shape.length : Int)) := by rw [← hax]; split <;> omega
      split at hs
      · next hall =>
        have hrank : (ts.all fun t => decide (t.shape.length = t0.shape.length)) = true := by
          rw [List.all_eq_true] at hall ⊢
          intro t ht
          have := hall t ht
          simp only [decide_eq_true_eq] at this ⊢
          exact this.1
        simp only [hrank, hall, h1, h2, Bool.not_true, Bool.false_eq_true, if_false]
        refine ⟨_, rfl, ?_⟩
        cases hs
        refine ⟨rfl, ofFn_WF _ _, ofFn_WF _ _, ?_⟩
        intro idx hidx
        simp only [ofFn_shape] at hidx
        rw [get_ofFn _ _ _ hidx, get_ofFn _ _ _ hidx]
        have := locate_find ax'.toNat idx ts [] (idx.getD ax'.toNat 0)
        simp only [List.nil_append, List.length_nil] at this
        exact this
      · cases hs

theorem concat_refuses (axis : Int) (ts : List (Tensor α)) (hn : 2 ≤ ts.length)
    (hs : Spec.concat axis ts = none) : ∀ m, concatOp axis ts ≠ .ok m := by
  match ts, hn with
  | t0 :: t1 :: rest, _ =>
    simp only [Spec.concat] at hs
    simp only [concatOp, gConcat]
    simp only [Int.add_comm (t0.shape.length : Int) axis]
    generalize hts : t0 :: t1 :: rest = ts at hs ⊢
    generalize hax : (if axis < 0 then axis + (t0.shape.length : Int) else axis) = ax' at hs ⊢
    intro m
    by_cases h1 : (!ts.all fun t => decide (t.shape.length = t0.shape.length)) = true
    · rw [if_pos h1]; intro h; cases h
    · rw [if_neg h1]
      by_cases h2 : ax' = -1
      · rw [if_pos h2]; intro h; cases h
      · rw [if_neg h2]
        by_cases h3 : ax' < 0 ∨ ax' ≥ (t0.shape.length : Int)
        · rw [if_pos h3]; intro h; cases h
        · rw [if_neg h3]
          have ha : ¬ (axis < -(t0.shape.length : Int) ∨ axis ≥ (t0.shape.length : Int)) := by
            intro ha
            apply h3
            rw [← hax]
            split <;> omega
          simp only [ha, if_false] at hs
          split at hs
          · cases hs
          · next h4 =>
            simp only [Bool.not_eq_true] at h4
            simp only [h4, Bool.not_false, if_true]
            intro h; cases h

/-! ### Expand -/

theorem range_mul (n m : Nat) :
    List.range (n * m) = (List.range n).flatMap fun i => (List.range m).map (i * m + ·) := by
  induction n with
  | zero => simp
  | succ n ih =>
    rw [Nat.succ_mul, List.range_add, ih, List.range_succ, List.flatMap_append]
    simp

theorem map_ravel_allIdx (s : List Nat) : (allIdx s).map (ravel s) = List.range (prod s) := by
  induction s with
  | nil => rfl
  | cons n s ih =>
    simp only [allIdx, prod, range_mul, List.map_flatMap, List.map_map]
    congr 1
    funext i
    rw [← ih, List.map_map]
    rfl

theorem ofFn_get_self (X : Tensor α) (h : X.WF) : ofFn X.shape (fun idx => X.get idx) = X := by
  obtain ⟨s, data⟩ := X
  simp only [Tensor.WF] at h
  simp only [ofFn, Tensor.get]
  congr 1
  have : (fun idx => data.getD (ravel s idx) default) = (fun i => data.getD i default) ∘ ravel s := rfl
  rw [this, ← List.map_map, map_ravel_allIdx, ← h]
  apply List.ext_getElem
  · simp
  · intro i h1 h2
    simp [List.getElem?_eq_getElem h2]

theorem repeatAxis_one (X : Tensor α) (k : Nat) (h : X.WF) : repeatAxis X k 1 = X := by
  unfold repeatAxis
  have h1 : (fun x : Nat => x * 1) = id := by funext x; simp
  have h2 : (fun x : Nat => x / 1) = id := by funext x; simp
  simp only [h1, h2, List.modify_id]
  exact ofFn_get_self X h

theorem getD_map_ofNat (tg : List Nat) (k : Nat) :
    (tg.map fun (d : Nat) => (d : Int)).getD k 0 = (dim tg k : Int) := by
  simp only [dim, List.getD_eq_getElem?_getD, List.getElem?_map]
  cases tg[k]? <;> rfl

/-- under compatibility the Expand loop is the one-operand broadcast loop -/
theorem expandLoop_eq_repA (s tg : List Nat) (k : Nat) (X : Tensor α) (hW : X.WF)
    (hX : ∀ j, j < k → dim X.shape j = dim s j)
    (hc : ∀ j, j < k → dim s j = dim tg j ∨ dim s j = 1 ∨ dim tg j = 1) :
    expandLoop (tg.map fun (d : Nat) => (d : Int)) k X = repA s tg k X := by
  induction k generalizing X with
  | zero => rfl
  | succ k ih =>
    unfold expandLoop repA
    simp only [getD_map_ofNat, Int.toNat_natCast, ne_eq, Int.natCast_inj]
    have hk := hX k (by omega)
    have hck := hc k (by omega)
    have hc' : ∀ j, j < k → dim s j = dim tg j ∨ dim s j = 1 ∨ dim tg j = 1 :=
      fun j hj => hc j (by omega)
    have hrep : ∀ n, ∀ j, j < k → dim (repeatAxis X k n).shape j = dim s j := by
      intro n j hj
      rw [repeatAxis_shape, dim_modify, if_neg (by omega)]
      exact hX j (by omega)
    by_cases h1 : dim X.shape k = dim tg k
    · rw [if_neg (by simpa using h1), if_neg (by rw [← hk]; omega)]
      exact ih X hW (fun j hj => hX j (by omega)) hc'
    · rw [if_pos (by simpa using h1)]
      by_cases h2 : dim s k = 1 ∧ dim tg k ≠ 1
      · rw [if_pos h2]
        exact ih _ (ofFn_WF _ _) (hrep _) hc'
      · rw [if_neg h2]
        have : dim tg k = 1 := by omega
        rw [this, repeatAxis_one X k hW]
        exact ih X hW (fun j hj => hX j (by omega)) hc'

theorem expandOp_eq (t : Tensor α) (target : List Int) (h : t.shape.length ≤ target.length) :
    expandOp t target = .ok (expandLoop target target.length
      (⟨padShape target.length t.shape, t.data⟩ : Tensor α)) := by
  unfold expandOp
  congr 2
  unfold addExtraDims padShape
  split
  · rfl
  · have : target.length - t.shape.length = 0 := by omega
    simp [this]

theorem expand_partial (t : Tensor α) (target : List Nat) (hpos : Pos t.shape) (htpos : Pos target)
    (hW : t.WF) (hlen : t.shape.length ≤ target.length) (s : Tensor α)
    (hs : Spec.expand t target = some s) :
    ∃ m, expandOp t (target.map fun (d : Nat) => (d : Int)) = .ok m ∧ Equiv m s := by
  unfold Spec.expand at hs
  split at hs
  · next hc =>
    cases hs
    rw [compatible_iff, Nat.max_eq_right hlen, padShape_self] at hc
    have hl := length_padShape target.length t.shape hlen
    have hc' : ∀ j, j < target.length →
        dim (padShape target.length t.shape) j = dim target j ∨
        dim (padShape target.length t.shape) j = 1 ∨ dim target j = 1 :=
      fun j hj => (dimCompat_iff _ _).1 (hc j hj)
    rw [expandOp_eq t _ (by simpa using hlen)]
    simp only [List.length_map]
    rw [expandLoop_eq_repA (padShape target.length t.shape) target target.length _
      (WF_pad t _ hW) (fun _ _ => rfl) hc']
    refine ⟨_, rfl, ?_⟩
    have hshape := repA_shape_max (padShape target.length t.shape) target t.data target.length hl rfl
      (Pos_padShape _ _ hpos) htpos hc
    have hb : bshape t.shape target = List.zipWith max (padShape target.length t.shape) target := by
      unfold bshape
      simp only [Nat.max_eq_right hlen, padShape_self]
    refine ⟨by rw [hshape, ofFn_shape, hb], repA_WF _ _ _ _ (WF_pad t _ hW), ofFn_WF _ _, ?_⟩
    intro idx hidx
    have hidx' : InRange idx (bshape t.shape target) := by rw [hb, ← hshape]; exact hidx
    have hlen' : idx.length = target.length := by
      rw [InRange_length hidx', length_bshape, Nat.max_eq_right hlen]
    rw [get_ofFn _ _ _ hidx', (repA_full _ _ t.data _ hl).2.2 idx hidx, get_pad _ _ _ _ hlen hlen']
  · cases hs


/-! ### Slice -/

theorem constructSlices_one (r ax : Nat) (start stop step : Int) (hax : ax < r) :
    constructSlices r [start] [stop] [step] [(ax : Int)] =
      .ok ((List.replicate r none).set ax (some ⟨start, stop, step⟩)) := by
  unfold constructSlices
  simp only [constructSlices.go]
  have h1 : ¬ ((ax : Int) < 0) := by omega
  simp [h1]
  omega

theorem headD_eq_getD {β : Type} (l : List β) (d : β) : l.headD d = l.getD 0 d := by
  cases l <;> rfl

theorem tail_getD {β : Type} (l : List β) (d : β) (j : Nat) : l.tail.getD j d = l.getD (j+1) d := by
  cases l <;> simp

/-- `axisSels` succeeds with the list of the per-axis results -/
theorem axisSels_ok (shape : List Nat) (i : Nat) (sls : List (Option Sl)) (g : Nat → AxisSel × Int × Int)
    (h : ∀ j, j < shape.length → axisSel (i + j) (dim shape j) (sls.getD j none) = .ok (g j)) :
    axisSels i shape sls = .ok ((List.range shape.length).map g) := by
  induction shape generalizing i sls g with
  | nil => rfl
  | cons n rest ih =>
    unfold axisSels
    have h0 := h 0 (by simp)
    rw [dim_cons_zero, ← headD_eq_getD, Nat.add_zero] at h0
    rw [h0]
    simp only
    rw [ih (i+1) sls.tail (fun j => g (j+1))]
    · simp only [List.length_cons, List.range_succ_eq_map, List.map_cons, List.map_map]
      rfl
    · intro j hj
      have := h (j+1) (by simp; omega)
      rw [dim_cons_succ, ← tail_getD] at this
      rw [← this]
      congr 1
      omega

/-- gorgonia's extent (truncating division, rounded up only off axis 0) is the ceiling division
when the remainder on axis 0 is zero -/
theorem ext_arith (L step : Int) (ax : Nat) (hL : 0 < L) (hst : 1 ≤ step)
    (h0 : ax = 0 → L % step = 0) :
    (if (if Int.tmod L step > 0 ∧ ax > 0 then Int.tdiv L step + 1 else Int.tdiv L step) ≤ 0 then 1
     else (if Int.tmod L step > 0 ∧ ax > 0 then Int.tdiv L step + 1 else Int.tdiv L step)) =
      (L + step - 1) / step := by
  rw [Int.tdiv_eq_ediv_of_nonneg (Int.le_of_lt hL), Int.tmod_eq_emod_of_nonneg (Int.le_of_lt hL)]
  have hs0 : step ≠ 0 := by omega
  have hdecomp : L % step + (L / step) * step = L := by
    rw [Int.mul_comm]; exact Int.emod_add_mul_ediv L step
  have hr0 : 0 ≤ L % step := Int.emod_nonneg L hs0
  have hr1 : L % step < step := Int.emod_lt_of_pos L (by omega)
  have hq0 : 0 ≤ L / step := Int.ediv_nonneg (Int.le_of_lt hL) (by omega)
  by_cases hr : L % step > 0
  · have hax : ax > 0 := by
      rcases Nat.eq_zero_or_pos ax with h | h
      · have := h0 h; omega
      · exact h
    have hc : (L + step - 1) / step = L / step + 1 := by
      have : L + step - 1 = (L % step - 1) + (L / step + 1) * step := by
        rw [Int.add_mul]; omega
      rw [this, Int.add_mul_ediv_right _ _ hs0, Int.ediv_eq_zero_of_lt (by omega) (by omega)]
      omega
    rw [hc]
    simp only [hr, hax, and_self, if_true]
    rw [if_neg (by omega)]
  · have hr' : L % step = 0 := by omega
    have hc : (L + step - 1) / step = L / step := by
      have : L + step - 1 = (step - 1) + (L / step) * step := by omega
      rw [this, Int.add_mul_ediv_right _ _ hs0, Int.ediv_eq_zero_of_lt (by omega) (by omega)]
      omega
    rw [hc]
    simp only [hr, false_and, if_false]
    have hqpos : 0 < L / step := by
      by_cases h : 0 < L / step
      · exact h
      · have : L / step = 0 := by omega
        rw [this, hr'] at hdecomp
        omega
    rw [if_neg (by omega)]

/-- clamped end -/
def clampEnd (d : Nat) (stop : Int) : Int := if stop > d then (d : Int) else stop

theorem sliceAxis_eq (d : Nat) (start stop step : Int) (hs0 : 0 ≤ start) (hsd : start < d)
    (hse : start < stop) (hst : 1 ≤ step) :
    sliceAxis d start stop step =
      some (start, step, ((clampEnd d stop - start + step - 1) / step).toNat) := by
  unfold sliceAxis clampEnd
  have h1 : ¬ step = 0 := by omega
  have h2 : ¬ start < 0 := by omega
  have h3 : ¬ stop < 0 := by omega
  have h4 : step > 0 := by omega
  have h5 : ¬ start > (d : Int) := by omega
  simp only [h1, h2, h3, h4, h5, if_true, if_false]
  by_cases h6 : stop > (d : Int)
  · simp only [h6, if_true]
    rw [if_pos (by omega)]
  · simp only [h6, if_false]
    rw [if_pos (by omega)]

theorem axisSel_eq (ax d : Nat) (start stop step : Int) (hs0 : 0 ≤ start) (hsd : start < d)
    (hse : start < stop) (hst : 1 ≤ step)
    (h0 : ax = 0 → (clampEnd d stop - start) % step = 0) :
    axisSel ax d (some ⟨start, stop, step⟩) =
      .ok (⟨start.toNat, ((clampEnd d stop - start + step - 1) / step).toNat, step.toNat,
        decide ((clampEnd d stop - start + step - 1) / step = 1)⟩, start, clampEnd d stop) := by
  have hL : 0 < clampEnd d stop - start := by unfold clampEnd; split <;> omega
  have hA := ext_arith (clampEnd d stop - start) step ax hL hst h0
  unfold axisSel
  simp only
  have h1 : ¬ (start > stop ∨ start < 0 ∨ (step = 0 ∧ stop - start > 1) ∨ start ≥ (d : Int)) := by omega
  rw [if_neg h1]
  have h2 : ¬ (start ≥ clampEnd d stop) := by omega
  unfold clampEnd at h2 hA ⊢
  rw [if_neg h2]
  have h4 : step > 0 := by omega
  simp only [h4, if_true]
  rw [hA]

theorem mapM_some_of_forall {β γ : Type} (f : β → Option γ) (g : β → γ) (l : List β)
    (h : ∀ x ∈ l, f x = some (g x)) : l.mapM f = some (l.map g) := by
  induction l with
  | nil => rfl
  | cons a l ih =>
    simp [List.mapM_cons, h a (by simp), ih (fun x hx => h x (by simp [hx]))]

/-- spec selection for axis `j` -/
def specSel (shape : List Nat) (ax : Nat) (start stop step : Int) (j : Nat) : Int × Int × Nat :=
  if j = ax then (start, step, ((clampEnd (dim shape ax) stop - start + step - 1) / step).toNat)
  else (0, 1, dim shape j)

theorem spec_slice_eq (t : Tensor α) (ax : Nat) (start stop step : Int)
    (hax : ax < t.shape.length)
    (hs0 : 0 ≤ start) (hsd : start < dim t.shape ax) (hse : start < stop) (hst : 1 ≤ step) :
    Spec.slice t [start] [stop] [(ax : Int)] [step] =
      some (ofFn ((List.range t.shape.length).map fun j => (specSel t.shape ax start stop step j).2.2)
        fun idx => t.get (List.zipWith (fun (s : Int × Int × Nat) (i : Nat) => (s.1 + (i : Int) * s.2.1).toNat)
          ((List.range t.shape.length).map (specSel t.shape ax start stop step)) idx)) := by
  unfold Spec.slice
  simp only [List.length_cons, List.length_nil, ne_eq, not_true_eq_false, or_self, if_false]
  have h1 : ¬ ((ax : Int) < 0) := by omega
  have h2 : (-(t.shape.length : Int) ≤ (ax : Int) ∧ (ax : Int) < (t.shape.length : Int)) := by omega
  simp only [List.all_cons, List.all_nil, h2, h1, if_false, List.map_cons, List.map_nil, Int.toNat_natCast]
  have h3 : (List.eraseDups [ax]).length = [ax].length := by
    simp [List.eraseDups, List.eraseDupsBy, List.eraseDupsBy.loop]
  rw [if_neg (by simp), if_neg (by simp [h3])]
  rw [mapM_some_of_forall _ (specSel t.shape ax start stop step)]
  · simp only [List.map_map]; rfl
  intro j _
  unfold specSel
  by_cases hj : j = ax
  · subst hj
    simp [sliceAxis_eq _ start stop step hs0 hsd hse hst]
  · have : ¬ ax = j := fun h => hj h.symm
    simp [hj, this]

/-! sums with a single non-zero term -/

theorem foldl_add_eq (l : List Int) (a : Int) : l.foldl (· + ·) a = a + l.sum := by
  induction l generalizing a with
  | nil => simp
  | cons x l ih => simp only [List.foldl_cons, ih, List.sum_cons]; omega

theorem foldl_sub_eq (l : List Int) (a : Int) : l.foldl (fun acc x => acc - x) a = a - l.sum := by
  induction l generalizing a with
  | nil => simp
  | cons x l ih => simp only [List.foldl_cons, ih, List.sum_cons]; omega

theorem sum_single (l : List Int) (a : Nat) (h : ∀ j, j ≠ a → l.getD j 0 = 0) : l.sum = l.getD a 0 := by
  induction l generalizing a with
  | nil => simp
  | cons x l ih =>
    cases a with
    | zero =>
      have := ih l.length (fun j _ => by simpa using h (j+1) (by omega))
      simp only [List.sum_cons, this]
      simp
    | succ a =>
      have hx : x = 0 := by simpa using h 0 (by omega)
      have := ih a (fun j hj => by simpa using h (j+1) (by omega))
      simp only [List.sum_cons, this, hx]
      simp

theorem getD_zipWith_int {β γ : Type} (f : β → γ → Int) (A : List β) (B : List γ) (j : Nat) :
    (List.zipWith f A B).getD j 0 =
      match A[j]?, B[j]? with
      | some a, some b => f a b
      | _, _ => 0 := by
  simp only [List.getD_eq_getElem?_getD, List.getElem?_zipWith]
  cases A[j]? <;> cases B[j]? <;> rfl

/-! strides -/

theorem length_strides (s : List Nat) : (strides s).length = s.length := by
  induction s with
  | nil => rfl
  | cons n s ih => simp [strides, ih]

theorem dim_strides (s : List Nat) (ax : Nat) (h : ax < s.length) :
    dim (strides s) ax = prod (s.drop (ax + 1)) := by
  induction s generalizing ax with
  | nil => simp at h
  | cons n s ih =>
    cases ax with
    | zero => simp [strides, dim_cons_zero]
    | succ ax =>
      simp only [strides, dim_cons_succ, List.drop_succ_cons]
      exact ih ax (by simpa using h)

theorem prod_split (s : List Nat) (ax : Nat) (h : ax < s.length) :
    prod s = prod (s.take ax) * (dim s ax * prod (s.drop (ax + 1))) := by
  induction s generalizing ax with
  | nil => simp at h
  | cons n s ih =>
    cases ax with
    | zero => simp [dim_cons_zero]
    | succ ax =>
      simp only [List.take_succ_cons, List.drop_succ_cons, prod_cons, dim_cons_succ]
      rw [ih ax (by simpa using h), Nat.mul_assoc]

theorem prod_pos_of_Pos {l : List Nat} (h : Pos l) : 0 < prod l := by
  induction l with
  | nil => simp
  | cons n l ih =>
    simp only [prod_cons]
    exact Nat.mul_pos (h n (by simp)) (ih (fun m hm => h m (by simp [hm])))

theorem dim_map_range (r : Nat) (f : Nat → Nat) (j : Nat) (hj : j < r) :
    dim ((List.range r).map f) j = f j := by
  simp [dim_eq, hj]

/-! `sliceIndex` without dropped axes -/

theorem sliceIndex_nodrop (as : List AxisSel) (idx : List Nat) (h : ∀ a ∈ as, a.drop = false)
    (hl : as.length ≤ idx.length) :
    sliceIndex as idx = List.zipWith (fun (a : AxisSel) (i : Nat) => a.start + i * a.step) as idx := by
  induction as generalizing idx with
  | nil => simp [sliceIndex]
  | cons a as ih =>
    cases idx with
    | nil => simp at hl
    | cons i is =>
      simp only [sliceIndex, h a (by simp), Bool.false_eq_true, if_false, List.headD_cons, List.tail_cons,
        List.zipWith_cons_cons]
      rw [ih is (fun b hb => h b (by simp [hb])) (by simpa using hl)]

theorem zipWith_congr_left {β γ δ : Type} (f f' : β → γ → δ) (l : List β) (l' : List γ)
    (h : ∀ a ∈ l, ∀ b, f a b = f' a b) : List.zipWith f l l' = List.zipWith f' l l' := by
  induction l generalizing l' with
  | nil => simp
  | cons a l ih =>
    cases l' with
    | nil => simp
    | cons b l' =>
      simp only [List.zipWith_cons_cons, h a (by simp) b]
      rw [ih l' (fun x hx => h x (by simp [hx]))]

/-- model selection for axis `j` -/
def modelSel (shape : List Nat) (ax : Nat) (start stop step : Int) (j : Nat) : AxisSel × Int × Int :=
  if j = ax then
    (⟨start.toNat, ((clampEnd (dim shape ax) stop - start + step - 1) / step).toNat, step.toNat,
      decide ((clampEnd (dim shape ax) stop - start + step - 1) / step = 1)⟩, start, clampEnd (dim shape ax) stop)
  else (⟨0, dim shape j, 1, false⟩, 0, dim shape j)

theorem axisSels_one (shape : List Nat) (ax : Nat) (start stop step : Int)
    (hs0 : 0 ≤ start) (hsd : start < dim shape ax) (hse : start < stop) (hst : 1 ≤ step)
    (h0 : ax = 0 → (clampEnd (dim shape ax) stop - start) % step = 0) :
    axisSels 0 shape ((List.replicate shape.length none).set ax (some ⟨start, stop, step⟩)) =
      .ok ((List.range shape.length).map (modelSel shape ax start stop step)) := by
  apply axisSels_ok
  intro j hj
  rw [Nat.zero_add]
  unfold modelSel
  simp only [List.getD_eq_getElem?_getD, List.getElem?_set, List.length_replicate, List.getElem?_replicate]
  by_cases hja : j = ax
  · subst hja
    simp only [hj, if_true, Option.getD_some]
    exact axisSel_eq j (dim shape j) start stop step hs0 hsd hse hst h0
  · have : ¬ ax = j := fun h => hja h.symm
    simp only [this, hja, if_false, hj, if_true, Option.getD_some]
    rfl

theorem getElem?_eq_some_dim (l : List Nat) (j : Nat) (h : j < l.length) : l[j]? = some (dim l j) := by
  simp [dim_eq, List.getElem?_eq_getElem h]

theorem getElem?_zip_range {β : Type} (g : Nat → β) (shape : List Nat) (j : Nat) (hj : j < shape.length) :
    ((List.map g (List.range shape.length)).zip shape)[j]? = some (g j, dim shape j) := by
  rw [List.getElem?_zip_eq_some]
  exact ⟨by simp [hj], getElem?_eq_some_dim _ _ hj⟩

theorem ndStart_eq (shape : List Nat) (ax : Nat) (start stop step : Int) (hax : ax < shape.length) :
    List.foldl (fun x1 x2 => x1 + x2) 0
      (List.zipWith (fun (a : AxisSel × Int × Int) (s : Nat) => a.snd.fst * (s : Int))
        (List.map (modelSel shape ax start stop step) (List.range shape.length)) (strides shape)) =
      start * (prod (shape.drop (ax + 1)) : Nat) := by
  rw [foldl_add_eq, sum_single _ ax, getD_zipWith_int]
  · rw [List.getElem?_map, List.getElem?_range hax,
      getElem?_eq_some_dim _ _ (by rw [length_strides]; exact hax), dim_strides _ _ hax]
    simp [modelSel]
  · intro j hj
    rw [getD_zipWith_int]
    by_cases hjr : j < shape.length
    · rw [List.getElem?_map, List.getElem?_range hjr,
        getElem?_eq_some_dim _ _ (by rw [length_strides]; exact hjr)]
      simp [modelSel, hj]
    · simp [hjr]

theorem ndEnd_eq (shape : List Nat) (ax : Nat) (start stop step : Int) (hax : ax < shape.length) (P : Int) :
    List.foldl (fun acc x => acc - x) P
      (List.zipWith (fun (x : (AxisSel × Int × Int) × Nat) (s : Nat) => ((x.snd : Int) - x.fst.snd.snd) * (s : Int))
        ((List.map (modelSel shape ax start stop step) (List.range shape.length)).zip shape) (strides shape)) =
      P - ((dim shape ax : Int) - clampEnd (dim shape ax) stop) * (prod (shape.drop (ax + 1)) : Nat) := by
  rw [foldl_sub_eq, sum_single _ ax, getD_zipWith_int]
  · rw [getElem?_zip_range _ _ _ hax,
      getElem?_eq_some_dim _ _ (by rw [length_strides]; exact hax), dim_strides _ _ hax]
    simp [modelSel]
  · intro j hj
    rw [getD_zipWith_int]
    by_cases hjr : j < shape.length
    · rw [getElem?_zip_range _ _ _ hjr,
        getElem?_eq_some_dim _ _ (by rw [length_strides]; exact hjr)]
      simp [modelSel, hj]
    · have : (strides shape)[j]? = none := by
        rw [List.getElem?_eq_none]; rw [length_strides]; omega
      rw [this]
      split <;> simp_all

theorem slice_one_axis (t : Tensor α) (ax : Nat) (start stop step : Int)
    (hpos : Pos t.shape) (hax : ax < t.shape.length)
    (hs0 : 0 ≤ start) (hsd : start < dim t.shape ax) (hse : start < stop) (hst : 1 ≤ step)
    (s : Tensor α) (hs : Spec.slice t [start] [stop] [(ax : Int)] [step] = some s)
    (hext : 2 ≤ dim s.shape ax)
    (hax0 : ax = 0 → ((if stop > dim t.shape 0 then (dim t.shape 0 : Int) else stop) - start) % step = 0) :
    ∃ m, sliceOp t [start] [stop] (some [(ax : Int)]) (some [step]) = .ok m ∧ Equiv m s := by
  rw [spec_slice_eq t ax start stop step hax hs0 hsd hse hst] at hs
  cases hs
  simp only [ofFn_shape] at hext
  rw [dim_map_range _ _ _ hax] at hext
  have h0 : ax = 0 → (clampEnd (dim t.shape ax) stop - start) % step = 0 := by
    intro h; subst h; exact hax0 rfl
  unfold sliceOp
  simp only [Option.getD_some]
  rw [constructSlices_one _ _ _ _ _ hax]
  simp only
  unfold gSlice
  rw [if_neg (by simp)]
  rw [axisSels_one t.shape ax start stop step hs0 hsd hse hst h0]
  simp only
  rw [ndStart_eq _ _ _ _ _ hax, ndEnd_eq _ _ _ _ _ hax]
  -- the extent of the sliced axis is at least 2
  have hN : 2 ≤ ((clampEnd (dim t.shape ax) stop - start + step - 1) / step).toNat := by
    simpa [specSel] using hext
  have hNint : 2 ≤ (clampEnd (dim t.shape ax) stop - start + step - 1) / step := by omega
  have hK : 2 ≤ clampEnd (dim t.shape ax) stop - start := by
    have := (Int.le_ediv_iff_mul_le (by omega : 0 < step)).1 hNint
    omega
  have hed : clampEnd (dim t.shape ax) stop ≤ (dim t.shape ax : Int) := by
    unfold clampEnd; split <;> omega
  -- gorgonia's scalar collapse does not fire
  have hne : ¬ ((prod t.shape : Nat) : Int) -
      ((dim t.shape ax : Int) - clampEnd (dim t.shape ax) stop) * (prod (t.shape.drop (ax + 1)) : Nat) -
      start * (prod (t.shape.drop (ax + 1)) : Nat) = 1 := by
    have hS : 0 < prod (t.shape.drop (ax + 1)) :=
      prod_pos_of_Pos (fun n hn => hpos n (List.mem_of_mem_drop hn))
    have hP : 0 < prod (t.shape.take ax) :=
      prod_pos_of_Pos (fun n hn => hpos n (List.mem_of_mem_take hn))
    rw [prod_split t.shape ax hax]
    generalize prod (t.shape.drop (ax + 1)) = S at hS ⊢
    generalize prod (t.shape.take ax) = P at hP ⊢
    generalize clampEnd (dim t.shape ax) stop = e at hK hed ⊢
    generalize dim t.shape ax = d at hed ⊢
    have h1 : (2 : Int) * 1 ≤ (e - start) * (S : Int) :=
      Int.mul_le_mul hK (by omega) (by omega) (by omega)
    have h2 : (1 : Int) * ((d : Int) * (S : Int)) ≤ (P : Int) * ((d : Int) * (S : Int)) :=
      Int.mul_le_mul_of_nonneg_right (by omega) (Int.mul_nonneg (by omega) (by omega))
    rw [Int.sub_mul] at h1 ⊢
    simp only [Int.natCast_mul]
    omega
  rw [if_neg hne]
  refine ⟨_, rfl, ?_⟩
  have hnodrop : ∀ a ∈ List.map (fun (x : AxisSel × Int × Int) => x.fst)
      (List.map (modelSel t.shape ax start stop step) (List.range t.shape.length)), a.drop = false := by
    intro a ha
    simp only [List.map_map, List.mem_map, List.mem_range, Function.comp] at ha
    obtain ⟨j, _, rfl⟩ := ha
    unfold modelSel
    split
    · simp only [decide_eq_false_iff_not]; omega
    · rfl
  have hfilter : List.filter (fun (x : AxisSel) => !x.drop) (List.map (fun (x : AxisSel × Int × Int) => x.fst)
      (List.map (modelSel t.shape ax start stop step) (List.range t.shape.length))) =
      List.map (fun (x : AxisSel × Int × Int) => x.fst)
      (List.map (modelSel t.shape ax start stop step) (List.range t.shape.length)) := by
    rw [List.filter_eq_self]
    intro a ha
    simp [hnodrop a ha]
  rw [hfilter]
  have hshape : List.map (fun (x : AxisSel) => x.ext) (List.map (fun (x : AxisSel × Int × Int) => x.fst)
      (List.map (modelSel t.shape ax start stop step) (List.range t.shape.length))) =
      List.map (fun j => (specSel t.shape ax start stop step j).snd.snd) (List.range t.shape.length) := by
    simp only [List.map_map]
    apply List.map_congr_left
    intro j _
    simp only [Function.comp, modelSel, specSel]
    split <;> rfl
  rw [hshape]
  refine ⟨rfl, ofFn_WF _ _, ofFn_WF _ _, ?_⟩
  intro idx hidx
  simp only [ofFn_shape] at hidx
  rw [get_ofFn _ _ _ hidx, get_ofFn _ _ _ hidx]
  congr 1
  have hlen : idx.length = t.shape.length := by
    rw [InRange_length hidx]; simp
  rw [sliceIndex_nodrop _ _ hnodrop (by simp [hlen])]
  simp only [List.map_map, List.zipWith_map_left]
  apply zipWith_congr_left
  intro j _ i
  simp only [Function.comp, modelSel, specSel]
  split
  · obtain ⟨a, rfl⟩ := Int.eq_ofNat_of_zero_le hs0
    obtain ⟨b, rfl⟩ := Int.eq_ofNat_of_zero_le (by omega : 0 ≤ step)
    simp only [Int.toNat_natCast]
    rw [← Int.natCast_mul, ← Int.natCast_add, Int.toNat_natCast]
  · simp

end Gonnx.Proofs.Index
