import Gonnx.Ops.Recurrent
import Gonnx.Spec.Recurrent
import Gonnx.Proofs.MatMul
import Gonnx.Proofs.Index
/-
Helper lemmas for C06: RNN / GRU / LSTM equal the ONNX recurrences.
-/
namespace Gonnx.Proofs.Recurrent
open Gonnx Gonnx.Spec Gonnx.Proofs Gonnx.Proofs.MatMul
variable {α : Type} [Inhabited α]

/-! ### the time loop -/

omit [Inhabited α] in
theorem runSteps_append {σ : Type} (step : σ → Tensor α → Res (σ × Tensor α)) (s : σ) (xs ys : List (Tensor α)) :
    runSteps step s (xs ++ ys) =
      match runSteps step s xs with
      | .error e => .error e
      | .ok (s1, h1) =>
        match runSteps step s1 ys with
        | .error e => .error e
        | .ok (s2, h2) => .ok (s2, h1 ++ h2) := by
  induction xs generalizing s with
  | nil =>
    simp only [List.nil_append, runSteps]
    cases runSteps step s ys with
    | error e => rfl
    | ok v => rfl
  | cons x xs ih =>
    simp only [List.cons_append, runSteps]
    cases step s x with
    | error e => rfl
    | ok v =>
      obtain ⟨s', h⟩ := v
      simp only [ih]
      cases runSteps step s' xs with
      | error e => rfl
      | ok v =>
        obtain ⟨s1, h1⟩ := v
        simp only
        cases runSteps step s1 ys with
        | error e => rfl
        | ok v => rfl

omit [Inhabited α] in
theorem iterate_append {σ : Type} (step : Nat → σ → σ) (hid : σ → Tensor α) (n m t : Nat) (s : σ) :
    Spec.iterate step hid (n + m) t s =
      let r1 := Spec.iterate step hid n t s
      let r2 := Spec.iterate step hid m (t + n) r1.2
      (r1.1 ++ r2.1, r2.2) := by
  induction n generalizing t s with
  | zero => simp [Spec.iterate]
  | succ n ih =>
    have e : n + 1 + m = (n + m) + 1 := by omega
    rw [e]
    simp only [Spec.iterate, ih]
    have e2 : t + 1 + n = t + (n + 1) := by omega
    rw [e2]
    rfl

/-! ### slicing -/


theorem axisSel_range (i size a b : Nat) (hab : a < b) (hb : b ≤ size) :
    axisSel i size (some ⟨(a:Int), (b:Int), 1⟩) =
      .ok (⟨a, b - a, 1, decide (b - a = 1)⟩, (a:Int), (b:Int)) := by
  unfold axisSel
  simp only
  have h1 : ¬ ((a:Int) > b ∨ (a:Int) < 0 ∨ ((1:Int) = 0 ∧ (b:Int) - a > 1) ∨ (a:Int) ≥ size) := by omega
  rw [if_neg h1]
  have h2 : ¬ ((b:Int) > size) := by omega
  simp only [h2, if_false]
  have h3 : ¬ ((a:Int) ≥ b) := by omega
  rw [if_neg h3]
  simp only [Int.tdiv_one, Int.tmod_one, show (1:Int) > 0 by omega, if_true, Int.lt_irrefl, false_and, if_false]
  have h4 : ¬ ((b:Int) - a ≤ 0) := by omega
  rw [if_neg h4]
  have e1 : ((b:Int) - a).toNat = b - a := by omega
  have e2 : decide ((b:Int) - a = 1) = decide (b - a = 1) := by
    apply decide_eq_decide.2; omega
  simp [e1, e2]

theorem axisSel_none (i size : Nat) : axisSel i size none = .ok (⟨0, size, 1, false⟩, 0, size) := rfl

theorem headD_tail_getD (idx : List Nat) : idx.tail.headD 0 = idx.getD 1 0 := by
  cases idx with
  | nil => rfl
  | cons a t => cases t <;> rfl

theorem headD_getD (idx : List Nat) : idx.headD 0 = idx.getD 0 0 := by cases idx <;> rfl

theorem gSlice3_block (M : Tensor α) (n1 c p q : Nat) (hs : M.shape = [1, n1, c]) (hpq : p + 2 ≤ q)
    (hq : q ≤ n1) (hc : 1 ≤ c) :
    gSlice M [some ⟨0, 1, 1⟩, some ⟨(p : Nat), (q : Nat), 1⟩, none] =
      .ok (ofFn [q - p, c] fun idx => M.get [0, p + idx.getD 0 0, idx.getD 1 0]) := by
  have h0 : axisSel 0 1 (some ⟨0, 1, 1⟩) = .ok (⟨0, 1, 1, true⟩, 0, 1) := by rfl
  have h1 := axisSel_range 1 n1 p q (by omega) hq
  have hd : decide (q - p = 1) = false := by simp; omega
  rw [hd] at h1
  have hsel : axisSels 0 [1, n1, c] [some ⟨0, 1, 1⟩, some ⟨(p : Nat), (q : Nat), 1⟩, none] =
      .ok [(⟨0, 1, 1, true⟩, 0, 1), (⟨p, q - p, 1, false⟩, (p:Int), (q:Int)), (⟨0, c, 1, false⟩, 0, (c:Int))] := by
    simp only [axisSels, List.headD, List.tail, h0, h1, axisSel_none]
  unfold gSlice
  rw [hs, hsel]
  simp only [List.length_cons, List.length_nil, strides, prod, List.zipWith, List.foldl, List.zip,
    List.map, List.filter, sliceIndex]
  have hne : ¬ ((↑(1 * (n1 * (c * 1))) : Int) - (↑(1:Nat) - 1) * ↑(n1 * (c * 1)) - (↑n1 - ↑q) * ↑(c * 1) - (↑c - ↑c) * ↑(1:Nat) -
              (0 + 0 * ↑(n1 * (c * 1)) + ↑p * ↑(c * 1) + 0 * ↑(1:Nat)) = 1) := by
    have h1 : (p + 2) * c ≤ q * c := Nat.mul_le_mul_right c hpq
    rw [Nat.add_mul] at h1
    simp only [Nat.mul_one, Nat.one_mul, Int.sub_self, Int.zero_mul, Int.sub_mul, Int.natCast_mul]
    have h2 : (p:Int) * c + 2 * c ≤ q * c := by exact_mod_cast h1
    omega
  rw [if_neg (by omega), if_neg hne]
  simp only [headD_getD]
  simp

theorem gSlice2_block (M : Tensor α) (n1 p q : Nat) (hs : M.shape = [1, n1]) (hpq : p + 2 ≤ q)
    (hq : q ≤ n1) :
    gSlice M [some ⟨0, 1, 1⟩, some ⟨(p : Nat), (q : Nat), 1⟩] =
      .ok (ofFn [q - p] fun idx => M.get [0, p + idx.getD 0 0]) := by
  have h0 : axisSel 0 1 (some ⟨0, 1, 1⟩) = .ok (⟨0, 1, 1, true⟩, 0, 1) := by rfl
  have h1 := axisSel_range 1 n1 p q (by omega) hq
  have hd : decide (q - p = 1) = false := by simp; omega
  rw [hd] at h1
  have hsel : axisSels 0 [1, n1] [some ⟨0, 1, 1⟩, some ⟨(p : Nat), (q : Nat), 1⟩] =
      .ok [(⟨0, 1, 1, true⟩, 0, 1), (⟨p, q - p, 1, false⟩, (p:Int), (q:Int))] := by
    simp only [axisSels, List.headD, List.tail, h0, h1]
  unfold gSlice
  rw [hs, hsel]
  simp only [List.length_cons, List.length_nil, strides, prod, List.zipWith, List.foldl, List.zip,
    List.map, List.filter, sliceIndex]
  rw [if_neg (by omega), if_neg (by simp only [Nat.mul_one, Int.sub_mul]; omega)]
  simp only [headD_getD]
  simp

theorem gSlice3_time (X : Tensor α) (n0 n1 n2 t : Nat) (hs : X.shape = [n0, n1, n2]) (ht : t < n0)
    (h2 : 2 ≤ n1 * n2) :
    gSlice X [some ⟨(t : Nat), (t + 1 : Nat), 1⟩, none, none] =
      .ok (ofFn [n1, n2] fun idx => X.get [t, idx.getD 0 0, idx.getD 1 0]) := by
  have h1 := axisSel_range 0 n0 t (t+1) (by omega) (by omega)
  have hd : decide (t + 1 - t = 1) = true := by simp
  rw [hd] at h1
  have hsel : axisSels 0 [n0, n1, n2] [some ⟨(t : Nat), (t + 1 : Nat), 1⟩, none, none] =
      .ok [(⟨t, t + 1 - t, 1, true⟩, (t:Int), ((t+1:Nat):Int)), (⟨0, n1, 1, false⟩, 0, (n1:Int)), (⟨0, n2, 1, false⟩, 0, (n2:Int))] := by
    simp only [axisSels, List.headD, List.tail, h1, axisSel_none]
  unfold gSlice
  rw [hs, hsel]
  simp only [List.length_cons, List.length_nil, strides, prod, List.zipWith, List.foldl, List.zip,
    List.map, List.filter, sliceIndex]
  have hne : ¬ ((↑(n0 * (n1 * (n2 * 1))) : Int) - (↑n0 - ↑(t + 1)) * ↑(n1 * (n2 * 1)) - (↑n1 - ↑n1) * ↑(n2 * 1) - (↑n2 - ↑n2) * ↑(1:Nat) -
              (0 + ↑t * ↑(n1 * (n2 * 1)) + 0 * ↑(n2 * 1) + 0 * ↑(1:Nat)) = 1) := by
    simp only [Nat.mul_one, Int.sub_self, Int.zero_mul, Int.sub_mul, Int.natCast_mul, Int.natCast_add, Int.add_mul]
    have h2' : (2:Int) ≤ (n1:Int) * n2 := by exact_mod_cast h2
    omega
  rw [if_neg (by omega), if_neg hne]
  simp only [headD_getD]
  simp


/-! ### ExtractMatrices -/
omit [Inhabited α] in
theorem mapM_ok {β γ : Type} (f : β → Res γ) (g : β → γ) (l : List β)
    (h : ∀ x ∈ l, f x = .ok (g x)) : l.mapM f = .ok (l.map g) := by
  induction l with
  | nil => rfl
  | cons a l ih =>
    rw [List.mapM_cons, h a (by simp), ih (fun x hx => h x (by simp [hx]))]
    rfl

/-- block `i` of a packed rank-3 weight tensor -/
def blk3 (M : Tensor α) (hidden c i : Nat) : Tensor α :=
  ofFn [hidden, c] fun idx => M.get [0, i * hidden + idx.getD 0 0, idx.getD 1 0]

/-- block `i` of a packed rank-2 bias / peephole tensor -/
def blk2 (M : Tensor α) (hidden i : Nat) : Tensor α :=
  ofFn [hidden] fun idx => M.get [0, i * hidden + idx.getD 0 0]

theorem block_bounds (n hidden i : Nat) (hi : i < n) (hh : 2 ≤ hidden) :
    i * hidden + 2 ≤ (i + 1) * hidden ∧ (i + 1) * hidden ≤ n * hidden ∧
      (i + 1) * hidden - i * hidden = hidden := by
  have h1 : (i + 1) * hidden ≤ n * hidden := Nat.mul_le_mul_right hidden hi
  rw [Nat.succ_mul] at h1 ⊢
  omega

theorem extractMatrices3 (M : Tensor α) (n hidden c : Nat) (hs : M.shape = [1, n * hidden, c])
    (hh : 2 ≤ hidden) (hc : 1 ≤ c) :
    extractMatrices M n 3 hidden = .ok ((List.range n).map (blk3 M hidden c)) := by
  unfold extractMatrices
  apply mapM_ok
  intro i hi
  obtain ⟨b1, b2, b3⟩ := block_bounds n hidden i (List.mem_range.1 hi) hh
  have := gSlice3_block M (n * hidden) c (i * hidden) ((i + 1) * hidden) hs b1 b2 hc
  rw [b3] at this
  exact this

theorem extractMatrices2 (M : Tensor α) (n hidden : Nat) (hs : M.shape = [1, n * hidden])
    (hh : 2 ≤ hidden) :
    extractMatrices M n 2 hidden = .ok ((List.range n).map (blk2 M hidden)) := by
  unfold extractMatrices
  apply mapM_ok
  intro i hi
  obtain ⟨b1, b2, b3⟩ := block_bounds n hidden i (List.mem_range.1 hi) hh
  have := gSlice2_block M (n * hidden) (i * hidden) ((i + 1) * hidden) hs b1 b2
  rw [b3] at this
  exact this

theorem extractMatrices_get (M : Tensor α) (n hidden c : Nat) (hh : 2 ≤ hidden) (hc : 1 ≤ c)
    (hs : M.shape = [1, n * hidden, c]) (ms : List (Tensor α))
    (h : extractMatrices M n 3 hidden = .ok ms) (i : Nat) (hi : i < n) :
    ∃ m, ms[i]? = some m ∧ m.shape = [hidden, c] ∧ m.WF ∧
      ∀ j k, j < hidden → k < c → m.get [j, k] = M.get [0, i * hidden + j, k] := by
  rw [extractMatrices3 M n hidden c hs hh hc] at h
  cases h
  refine ⟨blk3 M hidden c i, by simp [hi], rfl, ofFn_WF _ _, ?_⟩
  intro j k hj hk
  unfold blk3
  rw [get_ofFn _ _ _ (by simp [InRange, hj, hk])]
  rfl

/-! ### tensors as functions of the index -/
omit [Inhabited α] in
theorem ofFn_congr (s : List Nat) (f g : List Nat → α) (h : ∀ idx, InRange idx s → f idx = g idx) :
    ofFn s f = ofFn s g := by
  unfold ofFn
  congr 1
  apply List.map_congr_left
  intro idx hidx
  exact h idx (mem_allIdx.1 hidx)

/-- observably equal tensors are equal -/
theorem tensor_ext (s t : Tensor α) (hs : s.shape = t.shape) (hsW : s.WF) (htW : t.WF)
    (h : ∀ idx, InRange idx s.shape → s.get idx = t.get idx) : s = t := by
  rw [← Index.ofFn_get_self s hsW, ← Index.ofFn_get_self t htW, ← hs]
  exact ofFn_congr _ _ _ h

theorem eq_ofFn (t : Tensor α) (s : List Nat) (f : List Nat → α) (hs : t.shape = s) (hW : t.WF)
    (h : ∀ idx, InRange idx s → t.get idx = f idx) : t = ofFn s f := by
  apply tensor_ext _ _ hs hW (ofFn_WF _ _)
  intro idx hidx
  rw [hs] at hidx
  rw [h idx hidx, get_ofFn _ _ _ hidx]

omit [Inhabited α] in
theorem zipSame_ofFn (f : α → α → α) (s : List Nat) (fa fb : List Nat → α) :
    zipSame f (ofFn s fa) (ofFn s fb) = .ok (ofFn s fun idx => f (fa idx) (fb idx)) := by
  unfold zipSame ofFn
  simp [List.zipWith_map]

theorem zipT_ofFn (f : α → α → α) (s : List Nat) (fa fb : List Nat → α) :
    zipT f (ofFn s fa) (ofFn s fb) = .ok (ofFn s fun idx => f (fa idx) (fb idx)) :=
  zipSame_ofFn f s fa fb

omit [Inhabited α] in
theorem map_ofFn (g : α → α) (s : List Nat) (fa : List Nat → α) :
    (ofFn s fa).map g = ofFn s fun idx => g (fa idx) := by
  unfold Tensor.map ofFn
  simp


/-! ### Gemm as used by the recurrent operators -/
/-- `Gemm{transB, alpha = beta = 1}` of a `(m, k)` matrix with a `(n, k)` weight matrix and a `(n)` bias -/
theorem gemmT_ok (A : Arith α) (one : α) (hone : ∀ v, A.mul v one = v) (x w b : Tensor α) (m k n : Nat)
    (hx : x.shape = [m, k]) (hw : w.shape = [n, k]) (hb : b.shape = [n]) (hbW : b.WF)
    (hm : 0 < m) (hn : 0 < n) :
    gemmT A one x w b = .ok (ofFn [m, n] fun idx =>
      A.add (sumRange A k fun l => A.mul (x.get [idx.getD 0 0, l]) (w.get [idx.getD 1 0, l]))
        (b.get [idx.getD 1 0])) := by
  unfold gemmT
  rw [gemmOp_eq]
  have sb : (transpose2 w).shape = [k, n] := by simp [transpose2, hw]
  simp only [Bool.false_eq_true, if_false, if_true]
  rw [mm2_ok A x (transpose2 w) m k n hx sb]
  simp only [gemmTail]
  obtain ⟨sh, data⟩ := b
  simp only at hb
  subst hb
  have hlen : data.length = n := by simpa [Tensor.WF] using hbW
  have hbm : (Tensor.map (fun v => A.mul v one) ⟨[n], data⟩ : Tensor α) =
      ⟨[(data.map fun v => A.mul v one).length], data.map fun v => A.mul v one⟩ := by
    simp [Tensor.map, hlen]
  rw [hbm, map_ofFn]
  obtain ⟨Z, z1, z2, z3, z4⟩ := uniZip_vec A.add (ofFn [m, n] fun idx => A.mul (sumRange A k fun l =>
      A.mul (x.get [idx.getD 0 0, l]) ((transpose2 w).get [l, idx.getD 1 0])) one)
    (data.map fun v => A.mul v one) (by rw [ofFn_shape, Pos2]; exact ⟨hm, hn⟩) (ofFn_WF _ _) (by simp)
    (by left; simp [hlen, dim])
  rw [z1]
  congr 1
  simp only [ofFn_shape] at z2 z4
  apply eq_ofFn _ _ _ z2 z3
  intro idx hidx
  rw [z4 idx hidx, get_ofFn _ _ _ hidx, hone]
  obtain ⟨e, h0, h1⟩ := InRange2_inv idx _ _ hidx
  congr 1
  · apply sumRange_congr
    intro l hl
    rw [transpose2_get2 w n k l _ hw hl h1]
  · have e1 : (if (List.map (fun v => A.mul v one) data).length = 1 then 0 else idx.getD ([m, n].length - 1) 0) = idx.getD 1 0 := by
      rw [List.length_map, hlen]
      split
      · omega
      · rfl
    rw [e1]
    have hj : idx.getD 1 0 < data.length := by omega
    generalize idx.getD 1 0 = j at hj
    simp only [Tensor.get, ravel, prod, Nat.mul_one, Nat.add_zero]
    simp only [List.getD, List.getElem?_map]
    rw [List.getElem?_eq_getElem hj]
    simp [hone]


theorem blk3_get (M : Tensor α) (h c g j l : Nat) (hj : j < h) (hl : l < c) :
    (blk3 M h c g).get [j, l] = M.get [0, g * h + j, l] := by
  unfold blk3
  rw [get_ofFn _ _ _ (by simp [InRange, hj, hl])]
  rfl

theorem blk2_get (M : Tensor α) (h g j : Nat) (hj : j < h) :
    (blk2 M h g).get [j] = M.get [0, g * h + j] := by
  unfold blk2
  rw [get_ofFn _ _ _ (by simp [InRange, hj])]
  rfl

/-- the affine half of a gate: `x · W_gᵀ + b_g'` -/
theorem gemmT_blk (A : Arith α) (one : α) (hone : ∀ v, A.mul v one = v) (x W Bt : Tensor α)
    (m k h g g' : Nat) (hx : x.shape = [m, k]) (hm : 0 < m) (hh : 0 < h) :
    gemmT A one x (blk3 W h k g) (blk2 Bt h g') = .ok (ofFn [m, h] fun idx =>
      A.add (dotRow A (fun l => x.get [idx.getD 0 0, l]) W (g * h + idx.getD 1 0) k)
        (Bt.get [0, g' * h + idx.getD 1 0])) := by
  rw [gemmT_ok A one hone x (blk3 W h k g) (blk2 Bt h g') m k h hx rfl rfl (ofFn_WF _ _) hm hh]
  congr 1
  apply ofFn_congr
  intro idx hidx
  obtain ⟨e, h0, h1⟩ := InRange2_inv idx _ _ hidx
  rw [blk2_get _ _ _ _ h1]
  congr 1
  unfold dotRow
  apply sumRange_congr
  intro l hl
  rw [blk3_get _ _ _ _ _ _ h1 hl]

/-! ### optional inputs -/

theorem zeroTensor_get2 (zero : α) (N x : Nat) (hx : x < N) :
    (zeroTensor zero [1, N]).get [0, x] = zero := by
  simp only [zeroTensor, Tensor.get, ravel, prod]
  simp [List.getD, hx]

theorem bias_get (zero : α) (B : Option (Tensor α)) (N x : Nat) (hx : x < N) :
    (B.getD (zeroTensor zero [1, N])).get [0, x] =
      match B with | some b => b.get [0, x] | none => zero := by
  cases B with
  | none => exact zeroTensor_get2 zero N x hx
  | some b => rfl

theorem dropDir_some (h : Tensor α) (b hd : Nat) (hs : h.shape = [1, b, hd]) (hW : h.WF) :
    dropDir h = .ok (ofFn [b, hd] fun idx => h.get (0 :: idx)) := by
  obtain ⟨sh, data⟩ := h
  simp only at hs
  subst hs
  simp only [dropDir, prod, Nat.one_mul, if_true]
  congr 1
  apply eq_ofFn _ _ _ rfl
  · simpa [Tensor.WF] using hW
  · intro idx hidx
    simp [Tensor.get, ravel]

omit [Inhabited α] in
theorem dropDir_zero (zero : α) (b hd : Nat) :
    dropDir (zeroTensor zero [1, b, hd]) = .ok (ofFn [b, hd] fun _ => zero) := by
  simp only [dropDir, zeroTensor, prod, Nat.one_mul, if_true]
  congr 1
  simp only [ofFn]
  congr 1
  rw [List.map_const', allIdx_length]
  rfl

/-- the initial state of the specification -/
def initS (zero : α) (H0 : Option (Tensor α)) (b hd : Nat) : Tensor α :=
  match H0 with
  | some h => ofFn [b, hd] fun idx => h.get (0 :: idx)
  | none => ofFn [b, hd] fun _ => zero

theorem initS_ok (zero : α) (H0 : Option (Tensor α)) (b hd : Nat) :
    (initS zero H0 b hd).shape = [b, hd] ∧ (initS zero H0 b hd).WF := by
  cases H0 <;> exact ⟨rfl, ofFn_WF _ _⟩

theorem init_state (zero : α) (H0 : Option (Tensor α)) (b hd : Nat)
    (hs : ∀ h, H0 = some h → h.shape = [1, b, hd]) (hW : ∀ h, H0 = some h → h.WF) :
    dropDir (H0.getD (zeroTensor zero [1, b, hd])) = .ok (initS zero H0 b hd) := by
  cases H0 with
  | none => exact dropDir_zero zero b hd
  | some h => exact dropDir_some h b hd (hs h rfl) (hW h rfl)

/-! ### time slices -/

theorem timeSlices_ok (X : Tensor α) (n0 n1 n2 : Nat) (hs : X.shape = [n0, n1, n2]) (h2 : 2 ≤ n1 * n2) :
    timeSlices X = .ok ((List.range n0).map fun t =>
      ofFn [n1, n2] fun idx => X.get [t, idx.getD 0 0, idx.getD 1 0]) := by
  unfold timeSlices
  have : dim X.shape 0 = n0 := by rw [hs]; rfl
  rw [this]
  apply mapM_ok
  intro t ht
  exact gSlice3_time X n0 n1 n2 t hs (List.mem_range.1 ht) h2


/-! ### the model loop against the specification's iteration -/

omit [Inhabited α] in
theorem runSteps_iterate {σ : Type} (mstep : σ → Tensor α → Res (σ × Tensor α)) (sstep : Nat → σ → σ)
    (hid : σ → Tensor α) (Inv : σ → Prop) (xs : Nat → Tensor α) (T : Nat)
    (hinv : ∀ t s, Inv (sstep t s))
    (hstep : ∀ t s, t < T → Inv s → mstep s (xs t) = .ok (sstep t s, hid (sstep t s))) :
    ∀ n t s, t + n ≤ T → Inv s →
      runSteps mstep s ((List.range' t n).map xs) =
        .ok ((Spec.iterate sstep hid n t s).2, (Spec.iterate sstep hid n t s).1) := by
  intro n
  induction n with
  | zero => intro t s _ _; rfl
  | succ n ih =>
    intro t s ht hs
    simp only [List.range'_succ, List.map_cons, runSteps, Spec.iterate]
    rw [hstep t s (by omega) hs]
    simp only
    rw [ih (t + 1) (sstep t s) (by omega) (hinv t s)]

omit [Inhabited α] in
theorem iterate_outs {σ : Type} (sstep : Nat → σ → σ) (hid : σ → Tensor α) (Inv : σ → Prop)
    (hinv : ∀ t s, Inv (sstep t s)) :
    ∀ n t s, (Spec.iterate sstep hid n t s).1.length = n ∧
      (∀ o ∈ (Spec.iterate sstep hid n t s).1, ∃ s', Inv s' ∧ o = hid s') ∧
      (0 < n → Inv (Spec.iterate sstep hid n t s).2) := by
  intro n
  induction n with
  | zero => intro t s; simp [Spec.iterate]
  | succ n ih =>
    intro t s
    obtain ⟨i1, i2, i3⟩ := ih (t + 1) (sstep t s)
    simp only [Spec.iterate, List.length_cons, i1, List.mem_cons, true_and]
    refine ⟨?_, ?_⟩
    · intro o ho
      rcases ho with ho | ho
      · exact ⟨_, hinv t s, ho⟩
      · exact i2 o ho
    · intro _
      cases n with
      | zero => exact hinv t s
      | succ n => exact i3 (by omega)

/-! ### stacking the per-step outputs -/

theorem go_replicate (b : Nat) (hb : 0 < b) : ∀ n k p,
    gConcat.go k p (List.replicate n b) = if p < n * b then (k + p / b, p % b) else (k + n, p - n * b) := by
  intro n
  induction n with
  | zero => intro k p; simp [gConcat.go]
  | succ n ih =>
    intro k p
    simp only [List.replicate_succ, gConcat.go]
    by_cases hp : p < b
    · have : p < (n + 1) * b := by rw [Nat.succ_mul]; omega
      simp [hp, this, Nat.div_eq_of_lt hp, Nat.mod_eq_of_lt hp]
    · rw [if_neg hp, ih]
      have e : p = (p - b) + b := by omega
      have hd : p / b = (p - b) / b + 1 := by
        conv => lhs; rw [e]
        exact Nat.add_div_right _ hb
      have hm : p % b = (p - b) % b := by
        conv => lhs; rw [e]
        exact Nat.add_mod_right _ _
      rw [Nat.succ_mul]
      by_cases h2 : p - b < n * b
      · rw [if_pos h2, if_pos (by omega), hd, hm]
        congr 1; omega
      · rw [if_neg h2, if_neg (by omega)]
        congr 1 <;> omega

theorem foldl_add_replicate (n b a : Nat) : (List.replicate n b).foldl (· + ·) a = a + n * b := by
  induction n generalizing a with
  | zero => simp
  | succ n ih => simp only [List.replicate_succ, List.foldl_cons, ih, Nat.succ_mul]; omega

theorem gConcat0_same (ts : List (Tensor α)) (b h : Nat) (hb : 0 < b) (hne : ts ≠ [])
    (hsh : ∀ t ∈ ts, t.shape = [b, h]) :
    gConcat 0 ts = .ok (ofFn [ts.length * b, h] fun idx =>
      (ts.getD (idx.getD 0 0 / b) ⟨[], []⟩).get [idx.getD 0 0 % b, idx.getD 1 0]) := by
  cases ts with
  | nil => exact absurd rfl hne
  | cons t0 rest =>
    simp only [gConcat]
    generalize hts : t0 :: rest = ts at hsh ⊢
    have h0 : t0.shape = [b, h] := hsh t0 (by rw [← hts]; simp)
    have hexts : (ts.map fun t => dim t.shape (0:Int).toNat) = List.replicate ts.length b := by
      rw [List.eq_replicate_iff]
      refine ⟨by simp, ?_⟩
      intro x hx
      simp only [List.mem_map] at hx
      obtain ⟨t, ht, rfl⟩ := hx
      rw [hsh t ht]; rfl
    have hall1 : (ts.all fun t => decide (t.shape.length = t0.shape.length)) = true := by
      rw [List.all_eq_true]
      intro t ht
      simp [hsh t ht, h0]
    have hall2 : (ts.all fun t => decide (t.shape.length = t0.shape.length ∧
        (List.range t0.shape.length).all fun j => decide (j = (0:Int).toNat ∨ dim t.shape j = dim t0.shape j))) = true := by
      rw [List.all_eq_true]
      intro t ht
      simp [hsh t ht, h0]
    rw [hall1, hall2, hexts]
    simp only [Bool.not_true, Bool.false_eq_true, if_false, h0]
    rw [if_neg (by decide), if_neg (by simp)]
    have e0 : (0:Int).toNat = 0 := rfl
    simp only [e0, foldl_add_replicate, Nat.zero_add, List.set_cons_zero]
    congr 1
    apply ofFn_congr
    intro idx hidx
    obtain ⟨e, i0, i1⟩ := InRange2_inv idx _ _ hidx
    revert e i0 i1
    generalize idx.getD 0 0 = i
    generalize idx.getD 1 0 = j
    intro e i0 i1
    subst e
    have hk : i / b < ts.length := by
      apply Nat.div_lt_of_lt_mul
      rw [Nat.mul_comm]; exact i0
    rw [go_replicate b hb, if_pos i0]
    simp only [Nat.zero_add, List.getD_eq_getElem?_getD, List.getElem?_eq_getElem hk, Option.getD_some,
      List.set_cons_zero]


omit [Inhabited α] in
theorem InRange4_inv (idx : List Nat) (a b c d : Nat) (h : InRange idx [a, b, c, d]) :
    idx = [idx.getD 0 0, idx.getD 1 0, idx.getD 2 0, idx.getD 3 0] ∧ idx.getD 0 0 < a ∧
      idx.getD 1 0 < b ∧ idx.getD 2 0 < c ∧ idx.getD 3 0 < d := by
  match idx, h with
  | [i, j, k, l], h => simpa [InRange] using h

omit [Inhabited α] in
theorem InRange3_inv (idx : List Nat) (a b c : Nat) (h : InRange idx [a, b, c]) :
    idx = [idx.getD 0 0, idx.getD 1 0, idx.getD 2 0] ∧ idx.getD 0 0 < a ∧
      idx.getD 1 0 < b ∧ idx.getD 2 0 < c := by
  match idx, h with
  | [i, j, k], h => simpa [InRange] using h

theorem stackY_two (o1 o2 : Tensor α) (rest : List (Tensor α)) (seq batch hidden : Nat) :
    stackY (o1 :: o2 :: rest) seq batch hidden =
      match gConcat 0 (o1 :: o2 :: rest) with
      | .error e => .error e
      | .ok y => if prod [seq, 1, batch, hidden] = prod y.shape then
          .ok { y with shape := [seq, 1, batch, hidden] } else .error .shape := rfl

theorem stackY_eq (outs : List (Tensor α)) (d : RecDims) (hlen : outs.length = d.seq)
    (hseq : 1 ≤ d.seq) (hb : 1 ≤ d.batch)
    (hsh : ∀ t ∈ outs, t.shape = [d.batch, d.hidden]) (hwf : ∀ t ∈ outs, t.WF) :
    stackY outs d.seq d.batch d.hidden = .ok (stackSpec outs d) := by
  match outs, hlen with
  | [], hlen => simp at hlen; omega
  | [o], hlen =>
    have ho := hsh o (by simp)
    have hw := hwf o (by simp)
    simp only [List.length_cons, List.length_nil] at hlen
    have hseq1 : d.seq = 1 := by omega
    simp only [stackY, ho]
    rw [if_pos (by simp [prod, hseq1])]
    congr 1
    unfold stackSpec
    rw [hseq1]
    apply eq_ofFn _ _ _ rfl
    · simp only [Tensor.WF] at hw ⊢
      rw [hw, ho]; simp [prod]
    · intro idx hidx
      obtain ⟨e, i0, i1, i2, i3⟩ := InRange4_inv idx _ _ _ _ hidx
      have e0 : idx.getD 0 0 = 0 := by omega
      have e1 : idx.getD 1 0 = 0 := by omega
      rw [e0]
      conv => lhs; rw [e, e0, e1]
      simp [Tensor.get, ravel, ho]
  | o1 :: o2 :: rest, hlen =>
    rw [stackY_two]
    generalize hts : o1 :: o2 :: rest = ts at *
    rw [gConcat0_same ts d.batch d.hidden hb (by rw [← hts]; simp) hsh]
    have hp : prod [d.seq, 1, d.batch, d.hidden] = prod [ts.length * d.batch, d.hidden] := by
      simp only [prod, hlen, Nat.one_mul, Nat.mul_one, Nat.mul_assoc]
    simp only []
    rw [if_pos (by exact hp)]
    congr 1
    unfold stackSpec
    apply eq_ofFn _ _ _ rfl
    · simp only [Tensor.WF]
      rw [hp]
      exact ofFn_WF _ _
    · intro idx hidx
      obtain ⟨e, i0, i1, i2, i3⟩ := InRange4_inv idx _ _ _ _ hidx
      have e1 : idx.getD 1 0 = 0 := by omega
      revert e i0 i1 i2 i3 e1
      generalize idx.getD 0 0 = t
      generalize idx.getD 1 0 = z
      generalize idx.getD 2 0 = i
      generalize idx.getD 3 0 = j
      intro e i0 i1 i2 i3 e1
      subst e1
      have hlt : t * d.batch + i < ts.length * d.batch := by
        rw [hlen]
        calc t * d.batch + i < t * d.batch + d.batch := by omega
          _ = (t + 1) * d.batch := by rw [Nat.succ_mul]
          _ ≤ d.seq * d.batch := Nat.mul_le_mul_right _ i0
      have hg : (ofFn [ts.length * d.batch, d.hidden] fun idx =>
          (ts.getD (idx.getD 0 0 / d.batch) ⟨[], []⟩).get [idx.getD 0 0 % d.batch, idx.getD 1 0]).get
            [t * d.batch + i, j] = (ts.getD t ⟨[], []⟩).get [i, j] := by
        rw [get_ofFn _ _ _ (by simp [InRange, hlt, i3])]
        have q1 : (t * d.batch + i) / d.batch = t := by
          rw [Nat.add_comm, Nat.add_mul_div_right _ _ (by omega), Nat.div_eq_of_lt i2, Nat.zero_add]
        have q2 : (t * d.batch + i) % d.batch = i := by
          rw [Nat.add_comm, Nat.add_mul_mod_self_right, Nat.mod_eq_of_lt i2]
        show (ts.getD ((t * d.batch + i) / d.batch) _).get [(t * d.batch + i) % d.batch, j] = _
        rw [q1, q2]
      rw [← hg, e]
      simp only [Tensor.get, ravel, prod, ofFn_shape]
      congr 1
      simp only [Nat.mul_one, Nat.one_mul, Nat.zero_mul, Nat.add_zero, Nat.zero_add, Nat.add_mul, Nat.mul_assoc, Nat.add_assoc]

/-! ### RNN -/
theorem finalState_eq (H : Tensor α) (b h : Nat) (hs : H.shape = [b, h]) (hW : H.WF) :
    finalState H b h = .ok (ofFn [1, b, h] fun idx => H.get (idx.drop 1)) := by
  unfold finalState
  rw [if_pos (by simp [prod, hs])]
  congr 1
  apply eq_ofFn _ _ _ rfl
  · simp only [Tensor.WF] at hW ⊢
    rw [hW, hs]; simp [prod]
  · intro idx hidx
    obtain ⟨e, i0, i1, i2⟩ := InRange3_inv idx _ _ _ hidx
    have e0 : idx.getD 0 0 = 0 := by omega
    rw [e, e0]
    simp [Tensor.get, ravel, hs]

/-- the RNN step of the model -/
def rnnStepM (A : Arith α) (one : α) (f : α → α) (Wi Wb Ri Rb : Tensor α) (H Xt : Tensor α) :
    Res (Tensor α × Tensor α) := do
  let a ← gemmT A one Xt Wi Wb
  let b ← gemmT A one H Ri Rb
  let s ← zipT A.add a b
  let H' := s.map f
  pure (H', H')

theorem rnnOp_eq (A : Arith α) (one : α) (getAct : String → Option (α → α)) (at0 : RecAttrs)
    (X W R : Tensor α) (B seqLens H0 : Option (Tensor α)) :
    rnnOp A one getAct at0 X W R B seqLens H0 = (do
      if seqLens.isSome then throw .inputUnsupported
      let seq := dim X.shape 0
      let batch := dim X.shape 1
      let h := at0.hiddenSize
      let Wi ← (extractMatrices W 1 3 h).map (·.headD ⟨[], []⟩)
      let Ri ← (extractMatrices R 1 3 h).map (·.headD ⟨[], []⟩)
      let Bt := B.getD (zeroTensor A.zero [1, 2 * h])
      let bs ← extractMatrices Bt 2 2 h
      let Wb := bs.getD 0 ⟨[], []⟩
      let Rb := bs.getD 1 ⟨[], []⟩
      let H ← dropDir (H0.getD (zeroTensor A.zero [1, batch, h]))
      let f ← match at0.activations[0]? with
        | none => throw .panic
        | some n => match getAct n with
          | none => throw .activation
          | some f => pure f
      let xs ← timeSlices X
      if xs.isEmpty then throw .panic
      let (Hn, outs) ← runSteps (rnnStepM A one f Wi Wb Ri Rb) H xs
      let Y ← stackY outs seq batch h
      let Yh ← finalState Hn batch h
      pure (Y, Yh)) := rfl

omit [Inhabited α] in
theorem recShapesOk_iff (G : Nat) (d : RecDims) (X W R : Tensor α) (B H0 : Option (Tensor α)) :
    recShapesOk G d X W R B H0 = true ↔
      X.shape = [d.seq, d.batch, d.input] ∧ W.shape = [1, G * d.hidden, d.input] ∧
      R.shape = [1, G * d.hidden, d.hidden] ∧ (∀ b, B = some b → b.shape = [1, 2 * G * d.hidden]) ∧
      (∀ h, H0 = some h → h.shape = [1, d.batch, d.hidden]) := by
  unfold recShapesOk
  cases B <;> cases H0 <;> simp [and_assoc]

theorem dotRow_congr (A : Arith α) (x x' : Nat → α) (M : Tensor α) (row n : Nat)
    (h : ∀ l, l < n → x' l = x l) : dotRow A x' M row n = dotRow A x M row n := by
  unfold dotRow
  apply sumRange_congr
  intro l hl
  rw [h l hl]

/-- the value the model computes for a gate is the specification's pre-activation -/
theorem gatePre_model (A : Arith α) (G hidden input N : Nat) (W R : Tensor α) (B : Option (Tensor α))
    (x x' hp hp' : Nat → α) (g j : Nat) (h1 : g * hidden + j < N) (h2 : (G + g) * hidden + j < N)
    (hx : ∀ l, l < input → x' l = x l) (hh : ∀ l, l < hidden → hp' l = hp l) :
    A.add (A.add (dotRow A x' W (g * hidden + j) input) ((B.getD (zeroTensor A.zero [1, N])).get [0, g * hidden + j]))
      (A.add (dotRow A hp' R (g * hidden + j) hidden) ((B.getD (zeroTensor A.zero [1, N])).get [0, (G + g) * hidden + j])) =
      gatePre A G hidden input W R B x hp g j := by
  unfold gatePre
  rw [bias_get _ _ _ _ h1, bias_get _ _ _ _ h2, dotRow_congr A x x' _ _ _ hx, dotRow_congr A hp hp' _ _ _ hh]
  cases B <;> rfl

/-- the RNN step of the specification -/
def rnnStepS (A : Arith α) (f : α → α) (d : RecDims) (X W R : Tensor α) (B : Option (Tensor α))
    (t : Nat) (H : Tensor α) : Tensor α :=
  ofFn [d.batch, d.hidden] fun idx =>
    let b := idx.getD 0 0; let j := idx.getD 1 0
    f (gatePre A 1 d.hidden d.input W R B (fun i => X.get [t, b, i]) (fun k => H.get [b, k]) 0 j)

theorem rnn_spec_eq (A : Arith α) (f : α → α) (d : RecDims) (X W R : Tensor α) (B H0 : Option (Tensor α)) :
    Spec.rnn A f d X W R B H0 =
      if !recShapesOk 1 d X W R B H0 ∨ d.seq = 0 then none
      else
        let h0 : Tensor α := initS A.zero H0 d.batch d.hidden
        let r := Spec.iterate (rnnStepS A f d X W R B) id d.seq 0 h0
        some (stackSpec r.1 d, ofFn [1, d.batch, d.hidden] fun idx => r.2.get (idx.drop 1)) := rfl

/-- the time slice `t` of `X` -/
def xSlice (X : Tensor α) (d : RecDims) (t : Nat) : Tensor α :=
  ofFn [d.batch, d.input] fun idx => X.get [t, idx.getD 0 0, idx.getD 1 0]

theorem xSlice_get (X : Tensor α) (d : RecDims) (t i l : Nat) (hi : i < d.batch) (hl : l < d.input) :
    (xSlice X d t).get [i, l] = X.get [t, i, l] := by
  unfold xSlice
  rw [get_ofFn _ _ _ (by simp [InRange, hi, hl])]
  rfl

theorem rnn_step (A : Arith α) (one : α) (hone : ∀ v, A.mul v one = v) (f : α → α) (d : RecDims)
    (X W R : Tensor α) (B : Option (Tensor α)) (hb : 0 < d.batch) (hh : 0 < d.hidden)
    (t : Nat) (H : Tensor α) (hH : H.shape = [d.batch, d.hidden]) :
    rnnStepM A one f (blk3 W d.hidden d.input 0) (blk2 (B.getD (zeroTensor A.zero [1, 2 * d.hidden])) d.hidden 0)
      (blk3 R d.hidden d.hidden 0) (blk2 (B.getD (zeroTensor A.zero [1, 2 * d.hidden])) d.hidden 1)
      H (xSlice X d t) =
      .ok (rnnStepS A f d X W R B t H, rnnStepS A f d X W R B t H) := by
  unfold rnnStepM
  simp only [bind, Except.bind, pure, Except.pure]
  rw [gemmT_blk A one hone (xSlice X d t) W _ d.batch d.input d.hidden 0 0 rfl hb hh,
    gemmT_blk A one hone H R _ d.batch d.hidden d.hidden 0 1 hH hb hh]
  simp only [zipT_ofFn, map_ofFn]
  have : ∀ T S : Tensor α, T = S → (Except.ok (T, T) : Res (Tensor α × Tensor α)) = .ok (S, S) := by
    intro T S h; rw [h]
  apply this
  unfold rnnStepS
  apply ofFn_congr
  intro idx hidx
  obtain ⟨e, i0, i1⟩ := InRange2_inv idx _ _ hidx
  simp only
  congr 1
  have := gatePre_model A 1 d.hidden d.input (2 * d.hidden) W R B (fun i => X.get [t, idx.getD 0 0, i])
    (fun l => (xSlice X d t).get [idx.getD 0 0, l]) (fun k => H.get [idx.getD 0 0, k])
    (fun k => H.get [idx.getD 0 0, k]) 0 (idx.getD 1 0) (by omega) (by omega)
    (fun l hl => xSlice_get X d t _ l i0 hl) (fun l _ => rfl)
  exact this


theorem timeSlices_x (X : Tensor α) (d : RecDims) (hs : X.shape = [d.seq, d.batch, d.input])
    (h2 : 2 ≤ d.batch * d.input) : timeSlices X = .ok ((List.range d.seq).map (xSlice X d)) :=
  timeSlices_ok X d.seq d.batch d.input hs h2

theorem two_le_mul (a b : Nat) (ha : 1 ≤ a) (hb : 2 ≤ b) : 2 ≤ a * b :=
  Nat.le_trans hb (Nat.le_mul_of_pos_left b ha)

theorem equiv_of_eq (y : Tensor α) (s : List Nat) (f : List Nat → α) (h : y = ofFn s f) :
    Proofs.Equiv y (ofFn s f) := by
  subst h
  exact ⟨rfl, ofFn_WF _ _, ofFn_WF _ _, fun _ _ => rfl⟩

/-- invariant of the hidden state -/
def StateOk (d : RecDims) (H : Tensor α) : Prop := H.shape = [d.batch, d.hidden] ∧ H.WF

theorem rnn_partial (A : Arith α) (one : α) (hone : ∀ v, A.mul v one = v)
    (getAct : String → Option (α → α)) (name : String) (f : α → α) (hact : getAct name = some f)
    (d : Spec.RecDims) (X W R : Tensor α) (B H0 : Option (Tensor α))
    (hh : 2 ≤ d.hidden) (hi : 2 ≤ d.input) (hb : 1 ≤ d.batch) (hsq : 1 ≤ d.seq)
    (hWH : ∀ h, H0 = some h → h.WF)
    (s : Tensor α × Tensor α) (hs : Spec.rnn A f d X W R B H0 = some s) :
    ∃ y yh, rnnOp A one getAct { hiddenSize := d.hidden, activations := [name] } X W R B none H0 = .ok (y, yh) ∧
      Proofs.Equiv y s.1 ∧ Proofs.Equiv yh s.2 := by
  rw [rnn_spec_eq] at hs
  split at hs
  · cases hs
  next hc =>
    simp only [not_or, Bool.not_eq_true', Bool.not_eq_false] at hc
    obtain ⟨hX, hW, hR, hB, hH⟩ := (recShapesOk_iff 1 d X W R B H0).1 hc.1
    simp only [Nat.one_mul, Nat.mul_one] at hW hR hB
    cases hs
    have e1 : extractMatrices W 1 3 d.hidden = .ok [blk3 W d.hidden d.input 0] :=
      extractMatrices3 W 1 d.hidden d.input (by rw [hW, Nat.one_mul]) hh (by omega)
    have e2 : extractMatrices R 1 3 d.hidden = .ok [blk3 R d.hidden d.hidden 0] :=
      extractMatrices3 R 1 d.hidden d.hidden (by rw [hR, Nat.one_mul]) hh (by omega)
    have e3 : extractMatrices (B.getD (zeroTensor A.zero [1, 2 * d.hidden])) 2 2 d.hidden =
        .ok [blk2 (B.getD (zeroTensor A.zero [1, 2 * d.hidden])) d.hidden 0,
          blk2 (B.getD (zeroTensor A.zero [1, 2 * d.hidden])) d.hidden 1] := by
      apply extractMatrices2 _ 2 d.hidden _ hh
      cases B with
      | none => rfl
      | some b => exact hB b rfl
    have e4 := init_state A.zero H0 d.batch d.hidden hH hWH
    have e5 := timeSlices_x X d hX (two_le_mul _ _ hb hi)
    have d0 : dim X.shape 0 = d.seq := by rw [hX]; rfl
    have d1 : dim X.shape 1 = d.batch := by rw [hX]; rfl
    have hinv : ∀ t (H : Tensor α), StateOk d (rnnStepS A f d X W R B t H) :=
      fun t H => ⟨rfl, ofFn_WF _ _⟩
    have h0ok : StateOk d (initS A.zero H0 d.batch d.hidden) := initS_ok _ _ _ _
    have e6 := runSteps_iterate
      (rnnStepM A one f (blk3 W d.hidden d.input 0) (blk2 (B.getD (zeroTensor A.zero [1, 2 * d.hidden])) d.hidden 0)
        (blk3 R d.hidden d.hidden 0) (blk2 (B.getD (zeroTensor A.zero [1, 2 * d.hidden])) d.hidden 1))
      (rnnStepS A f d X W R B) id (StateOk d) (xSlice X d) d.seq hinv
      (fun t H _ hH => rnn_step A one hone f d X W R B (by omega) (by omega) t H hH.1)
      d.seq 0 _ (by omega) h0ok
    rw [← List.range_eq_range'] at e6
    obtain ⟨o1, o2, o3⟩ := iterate_outs (rnnStepS A f d X W R B) id (StateOk d) hinv d.seq 0
      (initS A.zero H0 d.batch d.hidden)
    have e7 := stackY_eq _ d o1 hsq hb (fun t ht => by obtain ⟨s', h1, h2⟩ := o2 t ht; rw [h2]; exact h1.1)
      (fun t ht => by obtain ⟨s', h1, h2⟩ := o2 t ht; rw [h2]; exact h1.2)
    have e8 := finalState_eq _ d.batch d.hidden (o3 (by omega)).1 (o3 (by omega)).2
    have hne : ((List.range d.seq).map (xSlice X d)).isEmpty = false := by
      cases hq : d.seq with
      | zero => omega
      | succ n => simp [List.range_succ_eq_map]
    refine ⟨_, _, ?_, equiv_of_eq _ _ _ rfl, equiv_of_eq _ _ _ rfl⟩
    rw [rnnOp_eq]
    simp only [bind, Except.bind, pure, Except.pure, Except.map, Option.isSome_none, Bool.false_eq_true, if_false,
      e1, e2, e3, d0, d1, e4, List.getElem?_cons_zero, hact, e5, hne, List.headD, List.getD_cons_zero,
      List.getD_cons_succ, e6, e7, e8]
    rfl

/-! ### GRU -/
/-- the gate of the GRU model: `act(Xt·Wxᵀ + Wbx + Hh·Rxᵀ + Rbx)` -/
def gruGateM (A : Arith α) (one : α) (Xt Hh Wx Rx Wbx Rbx : Tensor α) (act : α → α) : Res (Tensor α) := do
  let a ← gemmT A one Xt Wx Wbx
  let b ← gemmT A one Hh Rx Rbx
  let s ← zipT A.add a b
  pure (s.map act)

/-- the GRU step of the model -/
def gruStepM (A : Arith α) (one : α) (f g : α → α) (lbr : Bool) (ws rs bs : List (Tensor α))
    (H Xt : Tensor α) : Res (Tensor α × Tensor α) := do
  let e : Tensor α := ⟨[], []⟩
  let z ← gruGateM A one Xt H (ws.getD 0 e) (rs.getD 0 e) (bs.getD 0 e) (bs.getD 3 e) f
  let r ← gruGateM A one Xt H (ws.getD 1 e) (rs.getD 1 e) (bs.getD 1 e) (bs.getD 4 e) f
  let ht ←
    if !lbr then do
      let rh ← zipT A.mul r H
      gruGateM A one Xt rh (ws.getD 2 e) (rs.getD 2 e) (bs.getD 2 e) (bs.getD 5 e) g
    else do
      let a ← gemmT A one Xt (ws.getD 2 e) (bs.getD 2 e)
      let b ← gemmT A one H (rs.getD 2 e) (bs.getD 5 e)
      let t1 ← zipT A.mul b r
      let t2 ← zipT A.add t1 a
      pure (t2.map g)
  let omz ← zipT A.sub (z.map fun _ => one) z
  let t2 ← zipT A.mul omz ht
  let t3 ← zipT A.mul z H
  let H' ← zipT A.add t2 t3
  pure (H', H')

theorem gruOp_eq (A : Arith α) (one : α) (getAct : String → Option (α → α)) (at0 : RecAttrs)
    (X W R : Tensor α) (B seqLens H0 : Option (Tensor α)) :
    gruOp A one getAct at0 X W R B seqLens H0 = (do
      if seqLens.isSome then throw .inputUnsupported
      let seq := dim X.shape 0
      let batch := dim X.shape 1
      let h := at0.hiddenSize
      let ws ← extractMatrices W 3 3 h
      let rs ← extractMatrices R 3 3 h
      let Bt := B.getD (zeroTensor A.zero [1, 6 * h])
      let bs ← extractMatrices Bt 6 2 h
      let H ← dropDir (H0.getD (zeroTensor A.zero [1, batch, h]))
      let f ← match at0.activations[0]? with
        | none => throw .panic
        | some n => match getAct n with | none => throw .activation | some f => pure f
      let g ← match at0.activations[1]? with
        | none => throw .panic
        | some n => match getAct n with | none => throw .activation | some f => pure f
      let xs ← timeSlices X
      if xs.isEmpty then throw .panic
      let (Hn, outs) ← runSteps (gruStepM A one f g at0.linearBeforeReset ws rs bs) H xs
      let Y ← stackY outs seq batch h
      let Yh ← finalState Hn batch h
      pure (Y, Yh)) := rfl

/-- the GRU step of the specification -/
def gruStepS (A : Arith α) (one : α) (f g : α → α) (lbr : Bool) (d : RecDims) (X W R : Tensor α)
    (B : Option (Tensor α)) (t : Nat) (H : Tensor α) : Tensor α :=
  let x (b : Nat) := fun i => X.get [t, b, i]
  let hp (b : Nat) := fun k => H.get [b, k]
  let z (b j : Nat) := f (gatePre A 3 d.hidden d.input W R B (x b) (hp b) 0 j)
  let r (b j : Nat) := f (gatePre A 3 d.hidden d.input W R B (x b) (hp b) 1 j)
  let wb (j : Nat) := match B with | some bb => bb.get [0, 2 * d.hidden + j] | none => A.zero
  let rb (j : Nat) := match B with | some bb => bb.get [0, 5 * d.hidden + j] | none => A.zero
  let ht (b j : Nat) :=
    if !lbr then
      g (A.add (A.add (dotRow A (x b) W (2 * d.hidden + j) d.input) (wb j))
               (A.add (dotRow A (fun k => A.mul (r b k) (H.get [b, k])) R (2 * d.hidden + j) d.hidden) (rb j)))
    else
      g (A.add (A.mul (A.add (dotRow A (hp b) R (2 * d.hidden + j) d.hidden) (rb j)) (r b j))
               (A.add (dotRow A (x b) W (2 * d.hidden + j) d.input) (wb j)))
  ofFn [d.batch, d.hidden] fun idx =>
    let b := idx.getD 0 0; let j := idx.getD 1 0
    A.add (A.mul (A.sub one (z b j)) (ht b j)) (A.mul (z b j) (H.get [b, j]))

theorem gru_spec_eq (A : Arith α) (one : α) (f g : α → α) (lbr : Bool) (d : RecDims) (X W R : Tensor α)
    (B H0 : Option (Tensor α)) :
    Spec.gru A one f g lbr d X W R B H0 =
      if !recShapesOk 3 d X W R B H0 ∨ d.seq = 0 then none
      else
        let h0 : Tensor α := initS A.zero H0 d.batch d.hidden
        let r := Spec.iterate (gruStepS A one f g lbr d X W R B) id d.seq 0 h0
        some (stackSpec r.1 d, ofFn [1, d.batch, d.hidden] fun idx => r.2.get (idx.drop 1)) := rfl

theorem ofFn_get2 (b h : Nat) (hf : List Nat → α) (i j : Nat) (hi : i < b) (hj : j < h) :
    (ofFn [b, h] hf).get [i, j] = hf [i, j] :=
  get_ofFn _ _ _ (by simp [InRange, hi, hj])

/-- a gate of the model (block `g` of `W`, `R`, bias blocks `g` and `g'`) on the time slice `t` and a
state given by its entries computes the specification's pre-activation, then the activation -/
theorem gruGateM_ok (A : Arith α) (one : α) (hone : ∀ v, A.mul v one = v) (d : RecDims)
    (X W R : Tensor α) (B : Option (Tensor α)) (hb : 0 < d.batch) (hh : 0 < d.hidden)
    (G N g g' : Nat) (hg' : g' = G + g) (hN : (G + g + 1) * d.hidden ≤ N)
    (t : Nat) (hp : List Nat → α) (act : α → α) :
    gruGateM A one (xSlice X d t) (ofFn [d.batch, d.hidden] hp) (blk3 W d.hidden d.input g)
      (blk3 R d.hidden d.hidden g) (blk2 (B.getD (zeroTensor A.zero [1, N])) d.hidden g)
      (blk2 (B.getD (zeroTensor A.zero [1, N])) d.hidden g') act =
      .ok (ofFn [d.batch, d.hidden] fun idx =>
        act (gatePre A G d.hidden d.input W R B (fun l => X.get [t, idx.getD 0 0, l])
          (fun k => hp [idx.getD 0 0, k]) g (idx.getD 1 0))) := by
  subst hg'
  unfold gruGateM
  simp only [bind, Except.bind, pure, Except.pure]
  rw [gemmT_blk A one hone (xSlice X d t) W _ d.batch d.input d.hidden g g rfl hb hh,
    gemmT_blk A one hone (ofFn [d.batch, d.hidden] hp) R _ d.batch d.hidden d.hidden g (G + g) rfl hb hh]
  simp only [zipT_ofFn, map_ofFn]
  congr 1
  apply ofFn_congr
  intro idx hidx
  obtain ⟨e, i0, i1⟩ := InRange2_inv idx _ _ hidx
  congr 1
  have h1 : (G + g) * d.hidden + idx.getD 1 0 < N := by
    rw [Nat.succ_mul] at hN; omega
  have h2 : g * d.hidden + idx.getD 1 0 < N := by
    have : g * d.hidden ≤ (G + g) * d.hidden := Nat.mul_le_mul_right _ (by omega)
    omega
  exact gatePre_model A G d.hidden d.input N W R B (fun l => X.get [t, idx.getD 0 0, l])
    (fun l => (xSlice X d t).get [idx.getD 0 0, l]) (fun k => hp [idx.getD 0 0, k])
    (fun k => (ofFn [d.batch, d.hidden] hp).get [idx.getD 0 0, k]) g (idx.getD 1 0) h2 h1
    (fun l hl => xSlice_get X d t _ l i0 hl) (fun l hl => ofFn_get2 _ _ hp _ l i0 hl)

theorem gatePre_congr (A : Arith α) (G hidden input : Nat) (W R : Tensor α) (B : Option (Tensor α))
    (x x' hp hp' : Nat → α) (g j : Nat)
    (hx : ∀ l, l < input → x' l = x l) (hh : ∀ l, l < hidden → hp' l = hp l) :
    gatePre A G hidden input W R B x' hp' g j = gatePre A G hidden input W R B x hp g j := by
  unfold gatePre
  rw [dotRow_congr A x x' _ _ _ hx, dotRow_congr A hp hp' _ _ _ hh]

omit [Inhabited α] in
theorem ok_pair (T S : Tensor α) (h : T = S) :
    (Except.ok (T, T) : Res (Tensor α × Tensor α)) = .ok (S, S) := by rw [h]

theorem gru_step (A : Arith α) (one : α) (hone : ∀ v, A.mul v one = v) (f g : α → α) (lbr : Bool)
    (d : RecDims) (X W R : Tensor α) (B : Option (Tensor α)) (hb : 0 < d.batch) (hh : 0 < d.hidden)
    (t : Nat) (hf : List Nat → α) :
    gruStepM A one f g lbr
      [blk3 W d.hidden d.input 0, blk3 W d.hidden d.input 1, blk3 W d.hidden d.input 2]
      [blk3 R d.hidden d.hidden 0, blk3 R d.hidden d.hidden 1, blk3 R d.hidden d.hidden 2]
      [blk2 (B.getD (zeroTensor A.zero [1, 6 * d.hidden])) d.hidden 0,
       blk2 (B.getD (zeroTensor A.zero [1, 6 * d.hidden])) d.hidden 1,
       blk2 (B.getD (zeroTensor A.zero [1, 6 * d.hidden])) d.hidden 2,
       blk2 (B.getD (zeroTensor A.zero [1, 6 * d.hidden])) d.hidden 3,
       blk2 (B.getD (zeroTensor A.zero [1, 6 * d.hidden])) d.hidden 4,
       blk2 (B.getD (zeroTensor A.zero [1, 6 * d.hidden])) d.hidden 5]
      (ofFn [d.batch, d.hidden] hf) (xSlice X d t) =
      .ok (gruStepS A one f g lbr d X W R B t (ofFn [d.batch, d.hidden] hf),
           gruStepS A one f g lbr d X W R B t (ofFn [d.batch, d.hidden] hf)) := by
  unfold gruStepM
  simp only [bind, Except.bind, pure, Except.pure, List.getD_cons_zero, List.getD_cons_succ]
  rw [gruGateM_ok A one hone d X W R B hb hh 3 (6 * d.hidden) 0 3 rfl (by omega) t hf f,
    gruGateM_ok A one hone d X W R B hb hh 3 (6 * d.hidden) 1 4 rfl (by omega) t hf f]
  cases lbr with
  | false =>
    simp only [Bool.not_false, if_true, zipT_ofFn]
    rw [gruGateM_ok A one hone d X W R B hb hh 3 (6 * d.hidden) 2 5 rfl (by omega) t _ g]
    simp only [map_ofFn, zipT_ofFn]
    apply ok_pair
    unfold gruStepS
    apply ofFn_congr
    intro idx hidx
    obtain ⟨e, i0, i1⟩ := InRange2_inv idx _ _ hidx
    revert e i0 i1
    generalize idx.getD 0 0 = i
    generalize idx.getD 1 0 = j
    intro e i0 i1
    subst e
    simp only [List.getD_cons_zero, List.getD_cons_succ, Bool.not_false, if_true]
    have hG : ∀ gi k, gatePre A 3 d.hidden d.input W R B (fun l => X.get [t, i, l])
        (fun k => (ofFn [d.batch, d.hidden] hf).get [i, k]) gi k =
        gatePre A 3 d.hidden d.input W R B (fun l => X.get [t, i, l]) (fun k => hf [i, k]) gi k :=
      fun gi k => gatePre_congr A 3 _ _ W R B _ _ _ _ gi k (fun _ _ => rfl)
        (fun l hl => ofFn_get2 _ _ hf i l i0 hl)
    simp only [hG, ofFn_get2 _ _ hf i j i0 i1]
    have hd : dotRow A (fun k => A.mul (f (gatePre A 3 d.hidden d.input W R B (fun l => X.get [t, i, l])
          (fun k => hf [i, k]) 1 k)) ((ofFn [d.batch, d.hidden] hf).get [i, k])) R (2 * d.hidden + j) d.hidden =
        dotRow A (fun k => A.mul (f (gatePre A 3 d.hidden d.input W R B (fun l => X.get [t, i, l])
          (fun k => hf [i, k]) 1 k)) (hf [i, k])) R (2 * d.hidden + j) d.hidden :=
      dotRow_congr A _ _ R _ _ (fun k hk => by rw [ofFn_get2 _ _ hf i k i0 hk])
    rw [hd]
    rfl
  | true =>
    simp only [Bool.not_true, Bool.false_eq_true, if_false]
    rw [gemmT_blk A one hone (xSlice X d t) W _ d.batch d.input d.hidden 2 2 rfl hb hh,
      gemmT_blk A one hone (ofFn [d.batch, d.hidden] hf) R _ d.batch d.hidden d.hidden 2 5 rfl hb hh]
    simp only [map_ofFn, zipT_ofFn]
    apply ok_pair
    unfold gruStepS
    apply ofFn_congr
    intro idx hidx
    obtain ⟨e, i0, i1⟩ := InRange2_inv idx _ _ hidx
    revert e i0 i1
    generalize idx.getD 0 0 = i
    generalize idx.getD 1 0 = j
    intro e i0 i1
    subst e
    simp only [Bool.not_true, Bool.false_eq_true, if_false]
    have hG : ∀ gi k, gatePre A 3 d.hidden d.input W R B (fun l => X.get [t, i, l])
        (fun k => (ofFn [d.batch, d.hidden] hf).get [i, k]) gi k =
        gatePre A 3 d.hidden d.input W R B (fun l => X.get [t, i, l]) (fun k => hf [i, k]) gi k :=
      fun gi k => gatePre_congr A 3 _ _ W R B _ _ _ _ gi k (fun _ _ => rfl)
        (fun l hl => ofFn_get2 _ _ hf i l i0 hl)
    have hx : dotRow A (fun l => (xSlice X d t).get [i, l]) W (2 * d.hidden + j) d.input =
        dotRow A (fun l => X.get [t, i, l]) W (2 * d.hidden + j) d.input :=
      dotRow_congr A _ _ W _ _ (fun l hl => xSlice_get X d t i l i0 hl)
    simp only [hG, ofFn_get2 _ _ hf i j i0 i1, hx,
      bias_get A.zero B (6 * d.hidden) (5 * d.hidden + j) (by omega),
      bias_get A.zero B (6 * d.hidden) (2 * d.hidden + j) (by omega)]

/-- invariant of the hidden state: it is given by its entries -/
def IsFn (d : RecDims) (H : Tensor α) : Prop := ∃ hf, H = ofFn [d.batch, d.hidden] hf

omit [Inhabited α] in
theorem IsFn.ok {d : RecDims} {H : Tensor α} (h : IsFn d H) : H.shape = [d.batch, d.hidden] ∧ H.WF := by
  obtain ⟨hf, rfl⟩ := h
  exact ⟨rfl, ofFn_WF _ _⟩

theorem initS_isFn (zero : α) (H0 : Option (Tensor α)) (d : RecDims) :
    IsFn d (initS zero H0 d.batch d.hidden) := by
  cases H0 <;> exact ⟨_, rfl⟩

omit [Inhabited α] in
theorem range_map_ne (n : Nat) (hn : 1 ≤ n) (F : Nat → Tensor α) :
    ((List.range n).map F).isEmpty = false := by
  cases n with
  | zero => omega
  | succ n => simp [List.range_succ_eq_map]

theorem gru_partial (A : Arith α) (one : α) (hone : ∀ v, A.mul v one = v)
    (getAct : String → Option (α → α)) (n1 n2 : String) (f g : α → α) (h1 : getAct n1 = some f) (h2 : getAct n2 = some g)
    (lbr : Bool) (d : Spec.RecDims) (X W R : Tensor α) (B H0 : Option (Tensor α))
    (hh : 2 ≤ d.hidden) (hi : 2 ≤ d.input) (hb : 1 ≤ d.batch) (hsq : 1 ≤ d.seq)
    (hWH : ∀ h, H0 = some h → h.WF)
    (s : Tensor α × Tensor α) (hs : Spec.gru A one f g lbr d X W R B H0 = some s) :
    ∃ y yh, gruOp A one getAct { hiddenSize := d.hidden, activations := [n1, n2], linearBeforeReset := lbr } X W R B none H0 = .ok (y, yh) ∧
      Proofs.Equiv y s.1 ∧ Proofs.Equiv yh s.2 := by
  rw [gru_spec_eq] at hs
  split at hs
  · cases hs
  next hc =>
    simp only [not_or, Bool.not_eq_true', Bool.not_eq_false] at hc
    obtain ⟨hX, hW, hR, hB, hH⟩ := (recShapesOk_iff 3 d X W R B H0).1 hc.1
    cases hs
    have e1 : extractMatrices W 3 3 d.hidden = .ok [blk3 W d.hidden d.input 0, blk3 W d.hidden d.input 1,
        blk3 W d.hidden d.input 2] :=
      extractMatrices3 W 3 d.hidden d.input hW hh (by omega)
    have e2 : extractMatrices R 3 3 d.hidden = .ok [blk3 R d.hidden d.hidden 0, blk3 R d.hidden d.hidden 1,
        blk3 R d.hidden d.hidden 2] :=
      extractMatrices3 R 3 d.hidden d.hidden hR hh (by omega)
    have e3 : extractMatrices (B.getD (zeroTensor A.zero [1, 6 * d.hidden])) 6 2 d.hidden =
        .ok [blk2 (B.getD (zeroTensor A.zero [1, 6 * d.hidden])) d.hidden 0,
          blk2 (B.getD (zeroTensor A.zero [1, 6 * d.hidden])) d.hidden 1,
          blk2 (B.getD (zeroTensor A.zero [1, 6 * d.hidden])) d.hidden 2,
          blk2 (B.getD (zeroTensor A.zero [1, 6 * d.hidden])) d.hidden 3,
          blk2 (B.getD (zeroTensor A.zero [1, 6 * d.hidden])) d.hidden 4,
          blk2 (B.getD (zeroTensor A.zero [1, 6 * d.hidden])) d.hidden 5] := by
      apply extractMatrices2 _ 6 d.hidden _ hh
      cases B with
      | none => rfl
      | some b => exact hB b rfl
    have e4 := init_state A.zero H0 d.batch d.hidden hH hWH
    have e5 := timeSlices_x X d hX (two_le_mul _ _ hb hi)
    have d0 : dim X.shape 0 = d.seq := by rw [hX]; rfl
    have d1 : dim X.shape 1 = d.batch := by rw [hX]; rfl
    have hinv : ∀ t (H : Tensor α), IsFn d (gruStepS A one f g lbr d X W R B t H) :=
      fun t H => ⟨_, rfl⟩
    have e6 := runSteps_iterate _
      (gruStepS A one f g lbr d X W R B) id (IsFn d) (xSlice X d) d.seq hinv
      (fun t H _ hH => by
        obtain ⟨hf, rfl⟩ := hH
        exact gru_step A one hone f g lbr d X W R B (by omega) (by omega) t hf)
      d.seq 0 _ (by omega) (initS_isFn A.zero H0 d)
    rw [← List.range_eq_range'] at e6
    obtain ⟨o1, o2, o3⟩ := iterate_outs (gruStepS A one f g lbr d X W R B) id (IsFn d) hinv d.seq 0
      (initS A.zero H0 d.batch d.hidden)
    have e7 := stackY_eq _ d o1 hsq hb (fun t ht => by obtain ⟨s', h1, h2⟩ := o2 t ht; rw [h2]; exact h1.ok.1)
      (fun t ht => by obtain ⟨s', h1, h2⟩ := o2 t ht; rw [h2]; exact h1.ok.2)
    have e8 := finalState_eq _ d.batch d.hidden (o3 (by omega)).ok.1 (o3 (by omega)).ok.2
    have hne := range_map_ne d.seq hsq (xSlice X d)
    refine ⟨_, _, ?_, equiv_of_eq _ _ _ rfl, equiv_of_eq _ _ _ rfl⟩
    rw [gruOp_eq]
    simp only [bind, Except.bind, pure, Except.pure, Option.isSome_none, Bool.false_eq_true, if_false,
      e1, e2, e3, d0, d1, e4, List.getElem?_cons_zero, List.getElem?_cons_succ, h1, h2, e5, hne, e6, e7, e8]
    rfl

/-! ### LSTM -/
/-- the gate of the LSTM model, with optional peephole `(p, c)` -/
def lstmGateM (A : Arith α) (one : α) (Xt Hh Wx Wbx Rx Rbx : Tensor α) (peep : Option (Tensor α × Tensor α))
    (act : α → α) : Res (Tensor α) := do
  let a ← gemmT A one Xt Wx Wbx
  let b ← gemmT A one Hh Rx Rbx
  let s ← zipT A.add a b
  let s ← match peep with
    | none => pure s
    | some (p, c) => do
      let (c', p') ← unidirBroadcast c p
      let pa ← zipT A.mul p' c'
      zipT A.add s pa
  pure (s.map act)

/-- the LSTM step of the model -/
def lstmStepM (A : Arith α) (one : α) (f g hAct : α → α) (ws rs bs : List (Tensor α))
    (ps : Option (List (Tensor α))) (st : Tensor α × Tensor α) (Xt : Tensor α) :
    Res ((Tensor α × Tensor α) × Tensor α) := do
  let e : Tensor α := ⟨[], []⟩
  let (H, C) := st
  let pk (i : Nat) (c : Tensor α) : Option (Tensor α × Tensor α) := ps.map fun l => (l.getD i e, c)
  let it ← lstmGateM A one Xt H (ws.getD 0 e) (bs.getD 0 e) (rs.getD 0 e) (bs.getD 4 e) (pk 0 C) f
  let ft ← lstmGateM A one Xt H (ws.getD 2 e) (bs.getD 2 e) (rs.getD 2 e) (bs.getD 6 e) (pk 2 C) f
  let ct ← lstmGateM A one Xt H (ws.getD 3 e) (bs.getD 3 e) (rs.getD 3 e) (bs.getD 7 e) none g
  let cf ← zipT A.mul ft C
  let ci ← zipT A.mul it ct
  let C' ← zipT A.add cf ci
  let ot ← lstmGateM A one Xt H (ws.getD 1 e) (bs.getD 1 e) (rs.getD 1 e) (bs.getD 5 e) (pk 1 C') f
  let H' ← zipT A.mul ot (C'.map hAct)
  pure ((H', C'), H')

theorem lstmOp_eq (A : Arith α) (one : α) (getAct : String → Option (α → α)) (at0 : RecAttrs)
    (X W R : Tensor α) (B seqLens H0 C0 P : Option (Tensor α)) :
    lstmOp A one getAct at0 X W R B seqLens H0 C0 P = (do
      if seqLens.isSome then throw .inputUnsupported
      let seq := dim X.shape 0
      let batch := dim X.shape 1
      let h := at0.hiddenSize
      let ws ← extractMatrices W 4 3 h
      let rs ← extractMatrices R 4 3 h
      let Bt := B.getD (zeroTensor A.zero [1, 8 * h])
      let bs ← extractMatrices Bt 8 2 h
      let H0' := H0.getD (zeroTensor A.zero [1, batch, h])
      let C0' := C0.getD (zeroTensor A.zero [1, batch, h])
      let ps ← match P with
        | none => pure none
        | some p => (extractMatrices p 3 2 h).map some
      let H ← dropDir H0'
      let C ← dropDir C0'
      let f ← match at0.activations[0]? with
        | none => throw .panic
        | some n => match getAct n with | none => throw .activation | some f => pure f
      let g ← match at0.activations[1]? with
        | none => throw .panic
        | some n => match getAct n with | none => throw .activation | some f => pure f
      let hAct ← match at0.activations[2]? with
        | none => throw .panic
        | some n => match getAct n with | none => throw .activation | some f => pure f
      let xs ← timeSlices X
      if xs.isEmpty then throw .panic
      let ((Hn, Cn), outs) ← runSteps (lstmStepM A one f g hAct ws rs bs ps) (H, C) xs
      let Y ← stackY outs seq batch h
      let Yh ← finalState Hn batch h
      let Yc ← finalState Cn batch h
      pure (Y, Yh, Yc)) := rfl

/-- the peephole term of the specification -/
def peepS (A : Arith α) (P : Option (Tensor α)) (hidden : Nat) (k j : Nat) (c : α) (v : α) : α :=
  match P with
  | some p => A.add v (A.mul (p.get [0, k * hidden + j]) c)
  | none => v

/-- the LSTM step of the specification -/
def lstmStepS (A : Arith α) (f g h : α → α) (d : RecDims) (X W R : Tensor α) (B P : Option (Tensor α))
    (t : Nat) (st : Tensor α × Tensor α) : Tensor α × Tensor α :=
  let x (b : Nat) := fun i => X.get [t, b, i]
  let hp (b : Nat) := fun k => st.1.get [b, k]
  let pre (b gi j : Nat) := gatePre A 4 d.hidden d.input W R B (x b) (hp b) gi j
  let it (b j : Nat) := f (peepS A P d.hidden 0 j (st.2.get [b, j]) (pre b 0 j))
  let ft (b j : Nat) := f (peepS A P d.hidden 2 j (st.2.get [b, j]) (pre b 2 j))
  let ct (b j : Nat) := g (pre b 3 j)
  let C' : Tensor α := ofFn [d.batch, d.hidden] fun idx =>
    let b := idx.getD 0 0; let j := idx.getD 1 0
    A.add (A.mul (ft b j) (st.2.get [b, j])) (A.mul (it b j) (ct b j))
  let H' : Tensor α := ofFn [d.batch, d.hidden] fun idx =>
    let b := idx.getD 0 0; let j := idx.getD 1 0
    A.mul (f (peepS A P d.hidden 1 j (C'.get [b, j]) (pre b 1 j))) (h (C'.get [b, j]))
  (H', C')

/-- the shape test of an optional input -/
def optShapeOk (o : Option (Tensor α)) (s : List Nat) : Bool :=
  match o with
  | some c => c.shape == s
  | none => true

omit [Inhabited α] in
theorem optShapeOk_iff (o : Option (Tensor α)) (s : List Nat) :
    optShapeOk o s = true ↔ ∀ c, o = some c → c.shape = s := by
  cases o <;> simp [optShapeOk]

theorem lstm_spec_eq (A : Arith α) (f g h : α → α) (d : RecDims)
    (X W R : Tensor α) (B H0 C0 P : Option (Tensor α)) :
    Spec.lstm A f g h d X W R B H0 C0 P =
      if !recShapesOk 4 d X W R B H0 ∨ d.seq = 0 ∨ !optShapeOk C0 [1, d.batch, d.hidden] ∨
          !optShapeOk P [1, 3 * d.hidden] then none
      else
        let r := Spec.iterate (lstmStepS A f g h d X W R B P) (·.1) d.seq 0
          (initS A.zero H0 d.batch d.hidden, initS A.zero C0 d.batch d.hidden)
        some (stackSpec r.1 d, ofFn [1, d.batch, d.hidden] (fun idx => r.2.1.get (idx.drop 1)),
          ofFn [1, d.batch, d.hidden] (fun idx => r.2.2.get (idx.drop 1))) := rfl

/-- a `(h)` vector unidirectionally broadcast to a `(b, h)` matrix -/
theorem unidir_vec_ofFn (b h : Nat) (hb : 0 < b) (hh : 0 < h) (cf F : List Nat → α) :
    unidirBroadcast (ofFn [b, h] cf) (ofFn [h] F) =
      .ok (ofFn [b, h] cf, ofFn [b, h] fun idx => F [idx.getD 1 0]) := by
  have hv : (ofFn [h] F : Tensor α) = ⟨[((allIdx [h]).map F).length], (allIdx [h]).map F⟩ := by
    unfold ofFn
    congr 1
    simp [allIdx_length]
  have hXp : Pos (ofFn [b, h] cf).shape := by rw [ofFn_shape, Pos2]; exact ⟨hb, hh⟩
  have hBp : Pos (ofFn [h] F : Tensor α).shape := by
    intro n hn; simp at hn; omega
  have hok : (unidirBroadcast (ofFn [b, h] cf) (ofFn [h] F)).isOk = true := by
    rw [hv]
    apply vec_isOk
    · simp
    · left; simp [allIdx_length, dim]
  obtain ⟨B', h1, h2, h3, h4⟩ := unidir_of_isOk _ _ hXp hBp (ofFn_WF _ _) hok
  rw [h1]
  congr 2
  apply eq_ofFn _ _ _ h2 h3
  intro idx hidx
  rw [h4 idx hidx]
  obtain ⟨e, i0, i1⟩ := InRange2_inv idx _ _ hidx
  have hne : idx ≠ [] := by rw [e]; simp
  rw [ofFn_shape, pin_vec _ _ hne]
  have : (if h = 1 then 0 else dim idx (idx.length - 1)) = idx.getD 1 0 := by
    split
    · omega
    · rw [e]; rfl
  rw [this, get_ofFn _ _ _ (show InRange [idx.getD 1 0] [h] from ⟨i1, trivial⟩)]

/-- the peephole argument of the model for gate block `k` and cell state `c` -/
def peepM (P : Option (Tensor α)) (hidden k : Nat) (c : Tensor α) : Option (Tensor α × Tensor α) :=
  P.map fun p => (blk2 p hidden k, c)

theorem lstmGateM_ok (A : Arith α) (one : α) (hone : ∀ v, A.mul v one = v) (d : RecDims)
    (X W R : Tensor α) (B : Option (Tensor α)) (hb : 0 < d.batch) (hh : 0 < d.hidden)
    (G N g g' : Nat) (hg' : g' = G + g) (hN : (G + g + 1) * d.hidden ≤ N)
    (t : Nat) (hp : List Nat → α) (P : Option (Tensor α)) (k : Nat) (cf : List Nat → α) (act : α → α) :
    lstmGateM A one (xSlice X d t) (ofFn [d.batch, d.hidden] hp) (blk3 W d.hidden d.input g)
      (blk2 (B.getD (zeroTensor A.zero [1, N])) d.hidden g) (blk3 R d.hidden d.hidden g)
      (blk2 (B.getD (zeroTensor A.zero [1, N])) d.hidden g')
      (peepM P d.hidden k (ofFn [d.batch, d.hidden] cf)) act =
      .ok (ofFn [d.batch, d.hidden] fun idx =>
        act (peepS A P d.hidden k (idx.getD 1 0) (cf idx)
          (gatePre A G d.hidden d.input W R B (fun l => X.get [t, idx.getD 0 0, l])
            (fun k => hp [idx.getD 0 0, k]) g (idx.getD 1 0)))) := by
  subst hg'
  unfold lstmGateM
  simp only [bind, Except.bind, pure, Except.pure]
  rw [gemmT_blk A one hone (xSlice X d t) W _ d.batch d.input d.hidden g g rfl hb hh,
    gemmT_blk A one hone (ofFn [d.batch, d.hidden] hp) R _ d.batch d.hidden d.hidden g (G + g) rfl hb hh]
  simp only [zipT_ofFn]
  have hpre : ∀ idx, InRange idx [d.batch, d.hidden] →
      A.add (A.add (dotRow A (fun l => (xSlice X d t).get [idx.getD 0 0, l]) W (g * d.hidden + idx.getD 1 0) d.input)
            ((B.getD (zeroTensor A.zero [1, N])).get [0, g * d.hidden + idx.getD 1 0]))
          (A.add (dotRow A (fun l => (ofFn [d.batch, d.hidden] hp).get [idx.getD 0 0, l]) R (g * d.hidden + idx.getD 1 0) d.hidden)
            ((B.getD (zeroTensor A.zero [1, N])).get [0, (G + g) * d.hidden + idx.getD 1 0])) =
        gatePre A G d.hidden d.input W R B (fun l => X.get [t, idx.getD 0 0, l])
          (fun k => hp [idx.getD 0 0, k]) g (idx.getD 1 0) := by
    intro idx hidx
    obtain ⟨e, i0, i1⟩ := InRange2_inv idx _ _ hidx
    have h1 : (G + g) * d.hidden + idx.getD 1 0 < N := by
      rw [Nat.succ_mul] at hN; omega
    have h2 : g * d.hidden + idx.getD 1 0 < N := by
      have : g * d.hidden ≤ (G + g) * d.hidden := Nat.mul_le_mul_right _ (by omega)
      omega
    exact gatePre_model A G d.hidden d.input N W R B (fun l => X.get [t, idx.getD 0 0, l])
      (fun l => (xSlice X d t).get [idx.getD 0 0, l]) (fun k => hp [idx.getD 0 0, k])
      (fun k => (ofFn [d.batch, d.hidden] hp).get [idx.getD 0 0, k]) g (idx.getD 1 0) h2 h1
      (fun l hl => xSlice_get X d t _ l i0 hl) (fun l hl => ofFn_get2 _ _ hp _ l i0 hl)
  cases P with
  | none =>
    simp only [peepM, Option.map_none, map_ofFn]
    congr 1
    apply ofFn_congr
    intro idx hidx
    rw [hpre idx hidx]
    rfl
  | some p =>
    simp only [peepM, Option.map_some, blk2]
    rw [unidir_vec_ofFn d.batch d.hidden hb hh]
    simp only [zipT_ofFn, map_ofFn]
    congr 1
    apply ofFn_congr
    intro idx hidx
    rw [hpre idx hidx]
    rfl

/-- the peephole blocks the model extracts -/
def psOf (P : Option (Tensor α)) (hidden : Nat) : Option (List (Tensor α)) :=
  P.map fun p => [blk2 p hidden 0, blk2 p hidden 1, blk2 p hidden 2]

theorem pk_eq (P : Option (Tensor α)) (hidden i : Nat) (c : Tensor α) (hi : i < 3) :
    Option.map (fun l : List (Tensor α) => (l.getD i ⟨[], []⟩, c)) (psOf P hidden) = peepM P hidden i c := by
  cases P with
  | none => rfl
  | some p =>
    match i, hi with
    | 0, _ => rfl
    | 1, _ => rfl
    | 2, _ => rfl

theorem lstm_step (A : Arith α) (one : α) (hone : ∀ v, A.mul v one = v) (f g h : α → α)
    (d : RecDims) (X W R : Tensor α) (B P : Option (Tensor α)) (hb : 0 < d.batch) (hh : 0 < d.hidden)
    (t : Nat) (hf cf : List Nat → α) :
    lstmStepM A one f g h
      [blk3 W d.hidden d.input 0, blk3 W d.hidden d.input 1, blk3 W d.hidden d.input 2, blk3 W d.hidden d.input 3]
      [blk3 R d.hidden d.hidden 0, blk3 R d.hidden d.hidden 1, blk3 R d.hidden d.hidden 2, blk3 R d.hidden d.hidden 3]
      [blk2 (B.getD (zeroTensor A.zero [1, 8 * d.hidden])) d.hidden 0,
       blk2 (B.getD (zeroTensor A.zero [1, 8 * d.hidden])) d.hidden 1,
       blk2 (B.getD (zeroTensor A.zero [1, 8 * d.hidden])) d.hidden 2,
       blk2 (B.getD (zeroTensor A.zero [1, 8 * d.hidden])) d.hidden 3,
       blk2 (B.getD (zeroTensor A.zero [1, 8 * d.hidden])) d.hidden 4,
       blk2 (B.getD (zeroTensor A.zero [1, 8 * d.hidden])) d.hidden 5,
       blk2 (B.getD (zeroTensor A.zero [1, 8 * d.hidden])) d.hidden 6,
       blk2 (B.getD (zeroTensor A.zero [1, 8 * d.hidden])) d.hidden 7]
      (psOf P d.hidden)
      (ofFn [d.batch, d.hidden] hf, ofFn [d.batch, d.hidden] cf) (xSlice X d t) =
      .ok (lstmStepS A f g h d X W R B P t (ofFn [d.batch, d.hidden] hf, ofFn [d.batch, d.hidden] cf),
           (lstmStepS A f g h d X W R B P t (ofFn [d.batch, d.hidden] hf, ofFn [d.batch, d.hidden] cf)).1) := by
  unfold lstmStepM
  simp only [bind, Except.bind, pure, Except.pure, List.getD_cons_zero, List.getD_cons_succ]
  rw [pk_eq P d.hidden 0 _ (by omega), pk_eq P d.hidden 2 _ (by omega)]
  rw [lstmGateM_ok A one hone d X W R B hb hh 4 (8 * d.hidden) 0 4 rfl (by omega) t hf P 0 cf f,
    lstmGateM_ok A one hone d X W R B hb hh 4 (8 * d.hidden) 2 6 rfl (by omega) t hf P 2 cf f]
  have hct := lstmGateM_ok A one hone d X W R B hb hh 4 (8 * d.hidden) 3 7 rfl (by omega) t hf none 0 cf g
  simp only [peepM, Option.map_none, peepS] at hct
  rw [hct]
  simp only [zipT_ofFn]
  rw [pk_eq P d.hidden 1 _ (by omega)]
  rw [lstmGateM_ok A one hone d X W R B hb hh 4 (8 * d.hidden) 1 5 rfl (by omega) t hf P 1 _ f]
  simp only [zipT_ofFn, map_ofFn]
  have key : ∀ (a b : Tensor α) (S : Tensor α × Tensor α), S.1 = a → S.2 = b →
      (Except.ok ((a, b), a) : Res ((Tensor α × Tensor α) × Tensor α)) = Except.ok (S, S.1) := by
    intro a b S h1 h2
    rw [← h1, ← h2]
  have hG : ∀ i, i < d.batch → ∀ gi k, gatePre A 4 d.hidden d.input W R B (fun l => X.get [t, i, l])
      (fun k => (ofFn [d.batch, d.hidden] hf).get [i, k]) gi k =
      gatePre A 4 d.hidden d.input W R B (fun l => X.get [t, i, l]) (fun k => hf [i, k]) gi k :=
    fun i i0 gi k => gatePre_congr A 4 _ _ W R B _ _ _ _ gi k (fun _ _ => rfl)
      (fun l hl => ofFn_get2 _ _ hf i l i0 hl)
  apply key
  · unfold lstmStepS
    simp only
    apply ofFn_congr
    intro idx hidx
    obtain ⟨e, i0, i1⟩ := InRange2_inv idx _ _ hidx
    revert e i0 i1
    generalize idx.getD 0 0 = i
    generalize idx.getD 1 0 = j
    intro e i0 i1
    subst e
    simp only [hG i i0, ofFn_get2 _ _ _ i j i0 i1, List.getD_cons_zero, List.getD_cons_succ]
  · unfold lstmStepS
    simp only
    apply ofFn_congr
    intro idx hidx
    obtain ⟨e, i0, i1⟩ := InRange2_inv idx _ _ hidx
    revert e i0 i1
    generalize idx.getD 0 0 = i
    generalize idx.getD 1 0 = j
    intro e i0 i1
    subst e
    simp only [hG i i0, ofFn_get2 _ _ _ i j i0 i1]

/-- invariant of the LSTM state -/
def IsFn2 (d : RecDims) (st : Tensor α × Tensor α) : Prop := IsFn d st.1 ∧ IsFn d st.2

theorem lstm_partial (A : Arith α) (one : α) (hone : ∀ v, A.mul v one = v)
    (getAct : String → Option (α → α)) (n1 n2 n3 : String) (f g h : α → α)
    (h1 : getAct n1 = some f) (h2 : getAct n2 = some g) (h3 : getAct n3 = some h)
    (d : Spec.RecDims) (X W R : Tensor α) (B H0 C0 P : Option (Tensor α))
    (hh : 2 ≤ d.hidden) (hi : 2 ≤ d.input) (hb : 1 ≤ d.batch) (hsq : 1 ≤ d.seq)
    (hWH : ∀ t, H0 = some t → t.WF) (hWC : ∀ t, C0 = some t → t.WF)
    (s : Tensor α × Tensor α × Tensor α) (hs : Spec.lstm A f g h d X W R B H0 C0 P = some s) :
    ∃ y yh yc, lstmOp A one getAct { hiddenSize := d.hidden, activations := [n1, n2, n3] } X W R B none H0 C0 P = .ok (y, yh, yc) ∧
      Proofs.Equiv y s.1 ∧ Proofs.Equiv yh s.2.1 ∧ Proofs.Equiv yc s.2.2 := by
  rw [lstm_spec_eq] at hs
  split at hs
  · cases hs
  next hc =>
    simp only [not_or, Bool.not_eq_true', Bool.not_eq_false] at hc
    obtain ⟨hc1, hc2, hc3, hc4⟩ := hc
    obtain ⟨hX, hW, hR, hB, hH⟩ := (recShapesOk_iff 4 d X W R B H0).1 hc1
    have hC := (optShapeOk_iff C0 _).1 hc3
    have hP := (optShapeOk_iff P _).1 hc4
    cases hs
    have e1 : extractMatrices W 4 3 d.hidden = .ok [blk3 W d.hidden d.input 0, blk3 W d.hidden d.input 1,
        blk3 W d.hidden d.input 2, blk3 W d.hidden d.input 3] :=
      extractMatrices3 W 4 d.hidden d.input hW hh (by omega)
    have e2 : extractMatrices R 4 3 d.hidden = .ok [blk3 R d.hidden d.hidden 0, blk3 R d.hidden d.hidden 1,
        blk3 R d.hidden d.hidden 2, blk3 R d.hidden d.hidden 3] :=
      extractMatrices3 R 4 d.hidden d.hidden hR hh (by omega)
    have e3 : extractMatrices (B.getD (zeroTensor A.zero [1, 8 * d.hidden])) 8 2 d.hidden =
        .ok [blk2 (B.getD (zeroTensor A.zero [1, 8 * d.hidden])) d.hidden 0,
          blk2 (B.getD (zeroTensor A.zero [1, 8 * d.hidden])) d.hidden 1,
          blk2 (B.getD (zeroTensor A.zero [1, 8 * d.hidden])) d.hidden 2,
          blk2 (B.getD (zeroTensor A.zero [1, 8 * d.hidden])) d.hidden 3,
          blk2 (B.getD (zeroTensor A.zero [1, 8 * d.hidden])) d.hidden 4,
          blk2 (B.getD (zeroTensor A.zero [1, 8 * d.hidden])) d.hidden 5,
          blk2 (B.getD (zeroTensor A.zero [1, 8 * d.hidden])) d.hidden 6,
          blk2 (B.getD (zeroTensor A.zero [1, 8 * d.hidden])) d.hidden 7] := by
      apply extractMatrices2 _ 8 d.hidden _ hh
      cases B with
      | none => rfl
      | some b => exact hB b rfl
    have e4 := init_state A.zero H0 d.batch d.hidden hH hWH
    have e4' := init_state A.zero C0 d.batch d.hidden hC hWC
    have e5 := timeSlices_x X d hX (two_le_mul _ _ hb hi)
    have d0 : dim X.shape 0 = d.seq := by rw [hX]; rfl
    have d1 : dim X.shape 1 = d.batch := by rw [hX]; rfl
    have hinv : ∀ t (st : Tensor α × Tensor α), IsFn2 d (lstmStepS A f g h d X W R B P t st) :=
      fun t st => ⟨⟨_, rfl⟩, ⟨_, rfl⟩⟩
    have e6 := runSteps_iterate _
      (lstmStepS A f g h d X W R B P) (·.1) (IsFn2 d) (xSlice X d) d.seq hinv
      (fun t st _ hst => by
        obtain ⟨H, C⟩ := st
        obtain ⟨⟨hf, rfl⟩, ⟨cf, rfl⟩⟩ := hst
        exact lstm_step A one hone f g h d X W R B P (by omega) (by omega) t hf cf)
      d.seq 0 (initS A.zero H0 d.batch d.hidden, initS A.zero C0 d.batch d.hidden) (by omega)
      ⟨initS_isFn A.zero H0 d, initS_isFn A.zero C0 d⟩
    rw [← List.range_eq_range'] at e6
    obtain ⟨o1, o2, o3⟩ := iterate_outs (lstmStepS A f g h d X W R B P) (·.1) (IsFn2 d) hinv d.seq 0
      (initS A.zero H0 d.batch d.hidden, initS A.zero C0 d.batch d.hidden)
    have e7 := stackY_eq _ d o1 hsq hb (fun t ht => by obtain ⟨s', q1, q2⟩ := o2 t ht; rw [q2]; exact q1.1.ok.1)
      (fun t ht => by obtain ⟨s', q1, q2⟩ := o2 t ht; rw [q2]; exact q1.1.ok.2)
    have e8 := finalState_eq _ d.batch d.hidden (o3 (by omega)).1.ok.1 (o3 (by omega)).1.ok.2
    have e9 := finalState_eq _ d.batch d.hidden (o3 (by omega)).2.ok.1 (o3 (by omega)).2.ok.2
    have hne := range_map_ne d.seq hsq (xSlice X d)
    refine ⟨_, _, _, ?_, equiv_of_eq _ _ _ rfl, equiv_of_eq _ _ _ rfl, equiv_of_eq _ _ _ rfl⟩
    rw [lstmOp_eq]
    cases P with
    | none =>
      simp only [psOf, Option.map_none] at e6
      simp only [bind, Except.bind, pure, Except.pure, Option.isSome_none, Bool.false_eq_true, if_false,
        e1, e2, e3, d0, d1, e4, e4', List.getElem?_cons_zero, List.getElem?_cons_succ, h1, h2, h3, e5, hne, e6, e7, e8, e9]
      rfl
    | some p =>
      have epp : extractMatrices p 3 2 d.hidden =
          .ok [blk2 p d.hidden 0, blk2 p d.hidden 1, blk2 p d.hidden 2] :=
        extractMatrices2 p 3 d.hidden (hP p rfl) hh
      simp only [psOf, Option.map_some] at e6
      simp only [bind, Except.bind, pure, Except.pure, Except.map, Option.isSome_none, Bool.false_eq_true, if_false,
        e1, e2, e3, epp, d0, d1, e4, e4', List.getElem?_cons_zero, List.getElem?_cons_succ, h1, h2, h3, e5, hne, e6, e7, e8, e9]
      rfl

end Gonnx.Proofs.Recurrent
