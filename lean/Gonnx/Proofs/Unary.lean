import Gonnx.Ops.Unary
import Gonnx.Proofs.MatMul
/-
Helper lemmas for C10: `Tensor.map` between two element types, and PRelu against its ONNX spec.
-/
namespace Gonnx.Proofs.Unary
open Gonnx Gonnx.Spec Gonnx.Proofs
variable {α β : Type}

theorem map_shape (f : α → β) (t : Tensor α) : (t.map f).shape = t.shape := rfl

theorem map_WF (f : α → β) (t : Tensor α) (h : t.WF) : (t.map f).WF := by
  simpa [Tensor.WF, Tensor.map] using h

theorem map_get [Inhabited α] [Inhabited β] (f : α → β) (t : Tensor α) (h : t.WF) (idx : List Nat)
    (hi : InRange idx t.shape) : (t.map f).get idx = f (t.get idx) := by
  have hlt := ravel_lt _ _ hi
  rw [← h] at hlt
  simp [Tensor.get, Tensor.map, List.getD, List.getElem?_map, List.getElem?_eq_getElem hlt]

/-- the scalar function PRelu zips over the two flat buffers -/
def preluScalar (lt0 : α → Bool) (mul : α → α → α) (v s : α) : α := if lt0 v then mul s v else v

variable [Inhabited α]

theorem prelu_ok (lt0 : α → Bool) (mul : α → α → α) (x slope : Tensor α)
    (hx : x.WF) (hs : slope.WF) (hpx : Pos x.shape) (hps : Pos slope.shape)
    (h : (unidirBroadcast x slope).isOk = true) :
    ∃ m, preluOp lt0 mul x slope = .ok m ∧ m.shape = x.shape ∧ m.WF ∧
      ∀ idx, InRange idx x.shape →
        m.get idx = preluScalar lt0 mul (x.get idx) (slope.get (pin slope.shape idx)) := by
  obtain ⟨B', h1, h2, h3, h4⟩ := MatMul.unidir_of_isOk x slope hpx hps hs h
  unfold Tensor.WF at hx h3
  refine ⟨⟨x.shape, List.zipWith (preluScalar lt0 mul) x.data B'.data⟩, ?_, rfl, ?_, ?_⟩
  · unfold preluOp; rw [h1]; rfl
  · simp only [Tensor.WF, List.length_zipWith, hx, h3, h2, Nat.min_self]
  · intro idx hidx
    have hlt := ravel_lt _ _ hidx
    rw [← h4 idx hidx]
    simp only [Tensor.get]
    rw [getD_zipWith (preluScalar lt0 mul) _ _ _ (by rw [hx]; exact hlt) (by rw [h3, h2]; exact hlt)
      default default default, h2]

theorem prelu_err (lt0 : α → Bool) (mul : α → α → α) (x slope : Tensor α)
    (h : (unidirBroadcast x slope).isOk = false) :
    preluOp lt0 mul x slope = .error .broadcast := by
  unfold preluOp
  cases hr : unidirBroadcast x slope with
  | error e => rw [unidir_error x slope e hr]
  | ok v => rw [hr] at h; simp [Res.isOk] at h

end Gonnx.Proofs.Unary
