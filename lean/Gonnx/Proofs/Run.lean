import Gonnx.Graph.Run
import Gonnx.Spec.Run
/-
Helper lemmas for C01 (Gonnx/Theorems/C01.lean): the node loop of `run` against the demand-driven
`Spec.value`. Core-only.
-/
namespace Gonnx.C01
open Gonnx
variable {V : Type}

/-- names a node may read at position `i`: caller inputs, initializers, outputs of earlier nodes -/
def available (g : Graph V) (ins : List (String × V)) (i : Nat) : List String :=
  ins.map (·.1) ++ g.inits.map (·.1) ++ ((g.nodes.take i).map (·.outs)).flatten

/-- well-formed: nodes in topological order, every value written once (SSA) and never under the
name of a caller input or initializer -/
structure WF (g : Graph V) (ins : List (String × V)) : Prop where
  topo : ∀ i (h : i < g.nodes.length), ∀ a ∈ (g.nodes[i]).ins, a ≠ "" → a ∈ available g ins i
  ssa : ((g.nodes.map (·.outs)).flatten).Nodup
  fresh : ∀ o ∈ (g.nodes.map (·.outs)).flatten, o ∉ ins.map (·.1) ∧ o ∉ g.inits.map (·.1)

/-- **The first binding of a name is also its last**, in the caller's tensors and in the
initializers. `run` builds its environment so that the *last* binding of a name wins (Go map
assignment), `Spec.value` looks names up front to back; the two agree exactly under this
condition. It holds whenever names are unique (`FirstBindingWins.of_unique`) — which they are in Go,
where both collections are maps. -/
def FirstBindingWins (g : Graph V) (ins : List (String × V)) : Prop :=
  (∀ a, List.lookup a ins.reverse = List.lookup a ins) ∧
  (∀ a, List.lookup a g.inits.reverse = List.lookup a g.inits)

/-- no name is bound twice among the caller's tensors, nor among the initializers -/
def UniqueNames (g : Graph V) (ins : List (String × V)) : Prop :=
  (ins.map (·.1)).Nodup ∧ (g.inits.map (·.1)).Nodup

end Gonnx.C01

namespace Gonnx.Proofs.Run
open Gonnx Gonnx.C01
variable {V : Type}

/-! ### association lists -/

theorem mem_of_lookup {β : Type} (a : String) (b : β) :
    ∀ l : List (String × β), List.lookup a l = some b → (a, b) ∈ l
  | [], h => by simp at h
  | (k, c) :: l, h => by
    rw [List.lookup_cons] at h
    by_cases hk : a = k
    · subst hk; simp at h; simp [h]
    · have : (a == k) = false := by simpa using hk
      rw [this] at h
      exact List.mem_cons_of_mem _ (mem_of_lookup a b l h)

theorem lookup_of_mem_nodup {β : Type} (a : String) (b : β) :
    ∀ l : List (String × β), (l.map (·.1)).Nodup → (a, b) ∈ l → List.lookup a l = some b
  | [], _, h => by simp at h
  | (k, c) :: l, hn, h => by
    rw [List.lookup_cons]
    simp only [List.map_cons, List.nodup_cons] at hn
    by_cases hk : a = k
    · subst hk
      simp only [beq_self_eq_true]
      rcases List.mem_cons.mp h with h | h
      · cases h; rfl
      · exact absurd (List.mem_map.mpr ⟨(a, b), h, rfl⟩) hn.1
    · have hb : (a == k) = false := by simpa using hk
      rw [hb]
      rcases List.mem_cons.mp h with h | h
      · cases h; exact absurd rfl hk
      · exact lookup_of_mem_nodup a b l hn.2 h

theorem nodup_reverse {α : Type} {l : List α} (h : l.Nodup) : l.reverse.Nodup := by
  unfold List.Nodup at *
  rw [List.pairwise_reverse]
  exact h.imp (fun hab => Ne.symm hab)

theorem lookup_reverse_of_nodup {β : Type} (l : List (String × β)) (hn : (l.map (·.1)).Nodup) (a : String) :
    List.lookup a l.reverse = List.lookup a l := by
  cases hl : List.lookup a l with
  | none =>
    rw [List.lookup_eq_none_iff] at hl ⊢
    intro p hp
    exact hl p (List.mem_reverse.mp hp)
  | some b =>
    have hmem := mem_of_lookup a b l hl
    apply lookup_of_mem_nodup a b l.reverse _ (List.mem_reverse.mpr hmem)
    rw [List.map_reverse]
    exact nodup_reverse hn

theorem lookup_eq_none_of_not_mem {β : Type} (l : List (String × β)) (a : String)
    (h : a ∉ l.map (·.1)) : List.lookup a l = none := by
  rw [List.lookup_eq_none_iff]
  intro p hp
  simp only [bne_iff_ne, ne_eq]
  intro heq
  exact h (List.mem_map.mpr ⟨p, hp, heq.symm⟩)

theorem lookup_map_some {β : Type} (a : String) :
    ∀ l : List (String × β), List.lookup a (l.map fun (n, v) => (n, some v)) = (List.lookup a l).map some
  | [] => rfl
  | (k, c) :: l => by
    simp only [List.map_cons, List.lookup_cons]
    cases a == k
    · exact lookup_map_some a l
    · rfl

theorem _root_.Gonnx.C01.FirstBindingWins.of_unique {g : Graph V} {ins : List (String × V)} (h : UniqueNames g ins) :
    FirstBindingWins g ins :=
  ⟨lookup_reverse_of_nodup ins h.1, lookup_reverse_of_nodup g.inits h.2⟩

/-! ### `bindOutputs` -/

theorem bind_ok {env : Env V} {names : List String} {outs : List (Option V)} {env' : Env V}
    (h : bindOutputs env names outs = .ok env') :
    names.length = outs.length ∧ env' = (names.zip outs).reverse ++ env := by
  unfold bindOutputs at h
  split at h
  · cases h
  · rename_i hlen
    refine ⟨Decidable.of_not_not hlen, ?_⟩
    cases h; rfl

theorem bind_find_mem (env : Env V) (names : List String) (outs : List (Option V)) (env' : Env V)
    (hn : names.Nodup) (h : bindOutputs env names outs = .ok env') (k : Nat) (hk : k < names.length) :
    env'.find (names[k]) = some (outs.getD k none) := by
  obtain ⟨hlen, rfl⟩ := bind_ok h
  have hk' : k < outs.length := hlen ▸ hk
  have hkeys : ((names.zip outs).map (·.1)).Nodup := by
    rw [List.map_fst_zip (Nat.le_of_eq hlen)]; exact hn
  have hmem : (names[k], outs[k]) ∈ names.zip outs := by
    rw [List.mem_iff_getElem]
    exact ⟨k, by simp [List.length_zip]; omega, by simp⟩
  have hl : List.lookup names[k] (names.zip outs).reverse = some outs[k] := by
    rw [lookup_reverse_of_nodup _ hkeys]
    exact lookup_of_mem_nodup _ _ _ hkeys hmem
  simp [Env.find, List.lookup_append, hl, List.getD_eq_getElem?_getD, hk']

theorem bind_find_not_mem (env : Env V) (names : List String) (outs : List (Option V)) (env' : Env V)
    (h : bindOutputs env names outs = .ok env') (name : String) (hnot : name ∉ names) :
    env'.find name = env.find name := by
  obtain ⟨_, rfl⟩ := bind_ok h
  have hl : List.lookup name (names.zip outs).reverse = none := by
    apply lookup_eq_none_of_not_mem
    intro hmem
    obtain ⟨p, hp, hp1⟩ := List.mem_map.mp hmem
    have := (List.of_mem_zip (a := p.1) (b := p.2) (List.mem_reverse.mp hp)).1
    exact hnot (hp1 ▸ this)
  simp [Env.find, List.lookup_append, hl]

/-! ### `runNodes` -/

theorem runNodes_cons_ok {sem : Nat → List (Option V) → Res (List (Option V))} {i : Nat} {n : GNode}
    {rest : List GNode} {env envF : Env V} (h : runNodes sem i (n :: rest) env = .ok envF) :
    ∃ vs outs env', gatherInputs env n.ins = .ok vs ∧ sem i vs = .ok outs ∧
      bindOutputs env n.outs outs = .ok env' ∧ runNodes sem (i+1) rest env' = .ok envF := by
  unfold runNodes at h
  split at h
  · cases h
  · rename_i vs hg
    split at h
    · cases h
    · rename_i outs hs
      split at h
      · cases h
      · rename_i env' hb
        exact ⟨vs, outs, env', hg, hs, hb, h⟩

theorem runNodes_node_error (sem : Nat → List (Option V) → Res (List (Option V))) (n : GNode) (rest : List GNode)
    (insn : List (Option V)) (e : Err) :
    ∀ (pre : List GNode) (start : Nat) (env env1 : Env V),
      runNodes sem start pre env = .ok env1 → gatherInputs env1 n.ins = .ok insn →
      sem (start + pre.length) insn = .error e →
      runNodes sem start (pre ++ n :: rest) env = .error e
  | [], start, env, env1, hpre, hg, hfail => by
    simp only [runNodes] at hpre
    cases hpre
    simp only [List.length_nil, Nat.add_zero] at hfail
    simp only [List.nil_append, runNodes, hg, hfail]
  | p :: pre, start, env, env1, hpre, hg, hfail => by
    obtain ⟨vs, outs, env', h1, h2, h3, h4⟩ := runNodes_cons_ok hpre
    have hidx : start + 1 + pre.length = start + (p :: pre).length := by
      simp only [List.length_cons]; omega
    have := runNodes_node_error sem n rest insn e pre (start + 1) env' env1 h4 hg (hidx ▸ hfail)
    simp only [List.cons_append, runNodes, h1, h2, h3, this]

/-- names unknown to the environment and written by no node stay unknown -/
theorem runNodes_find_none (sem : Nat → List (Option V) → Res (List (Option V))) (name : String) :
    ∀ (rest : List GNode) (i : Nat) (env envF : Env V),
      runNodes sem i rest env = .ok envF → env.find name = none →
      name ∉ (rest.map (·.outs)).flatten → envF.find name = none
  | [], i, env, envF, h, hf, _ => by
    simp only [runNodes] at h
    cases h; exact hf
  | n :: rest, i, env, envF, h, hf, hno => by
    obtain ⟨vs, outs, env', _, _, h3, h4⟩ := runNodes_cons_ok h
    simp only [List.map_cons, List.flatten_cons, List.mem_append, not_or] at hno
    apply runNodes_find_none sem name rest (i+1) env' envF h4 _ hno.2
    rw [bind_find_not_mem env n.outs outs env' h3 name hno.1]
    exact hf

/-! ### `collectOutputs` -/

theorem collect_cons_ok {env : Env V} {o : String} {os : List String} {outs : List (String × V)}
    (h : collectOutputs env (o :: os) = .ok outs) :
    ∃ v outs', env.find o = some (some v) ∧ collectOutputs env os = .ok outs' ∧ outs = (o, v) :: outs' := by
  unfold collectOutputs at h
  split at h
  · rename_i v hf
    cases hr : collectOutputs env os with
    | error e => rw [hr] at h; cases h
    | ok outs' =>
      rw [hr] at h
      simp only [Except.map] at h
      cases h
      exact ⟨v, outs', hf, rfl, rfl⟩
  · cases h

theorem collect_names (env : Env V) : ∀ (os : List String) (outs : List (String × V)),
    collectOutputs env os = .ok outs → outs.map (·.1) = os
  | [], outs, h => by
    simp only [collectOutputs] at h
    cases h; rfl
  | o :: os, outs, h => by
    obtain ⟨v, outs', _, hr, rfl⟩ := collect_cons_ok h
    simp only [List.map_cons, collect_names env os outs' hr]

theorem collect_mem (env : Env V) : ∀ (os : List String) (outs : List (String × V)),
    collectOutputs env os = .ok outs → ∀ o v, (o, v) ∈ outs → env.find o = some (some v)
  | [], outs, h, o, v, hm => by
    simp only [collectOutputs] at h
    cases h; simp at hm
  | o' :: os, outs, h, o, v, hm => by
    obtain ⟨v', outs', hf, hr, rfl⟩ := collect_cons_ok h
    rcases List.mem_cons.mp hm with hm | hm
    · cases hm; exact hf
    · exact collect_mem env os outs' hr o v hm

theorem collect_missing (env : Env V) (o : String) (hf : env.find o = none) :
    ∀ os : List String, o ∈ os → ∃ e, collectOutputs env os = .error e
  | [], h => by simp at h
  | o' :: os, h => by
    cases hc : collectOutputs env (o' :: os) with
    | error e => exact ⟨e, rfl⟩
    | ok outs =>
      obtain ⟨v, outs', hf', hr, _⟩ := collect_cons_ok hc
      rcases List.mem_cons.mp h with h | h
      · subst h; rw [hf] at hf'; cases hf'
      · obtain ⟨e, he⟩ := collect_missing env o hf os h
        rw [he] at hr; cases hr

/-! ### `run` -/

/-- the environment the node loop starts from: parameters first, then the caller's tensors -/
def env0 (g : Graph V) (ins : List (String × V)) : Env V :=
  (ins.map fun (n, v) => (n, some v)).reverse ++ (g.inits.map fun (n, v) => (n, some v)).reverse

theorem run_ok {shapeOf : V → List Nat} {sem : Nat → List (Option V) → Res (List (Option V))}
    {g : Graph V} {ins : List (String × V)} {outs : List (String × V)}
    (h : run shapeOf sem g ins = .ok outs) :
    ∃ env, runNodes sem 0 g.nodes (env0 g ins) = .ok env ∧ collectOutputs env g.outputs = .ok outs := by
  unfold run at h
  split at h
  · cases h
  · simp only at h
    split at h
    · cases h
    · rename_i env henv
      exact ⟨env, henv, h⟩

theorem run_error_of_validate (shapeOf : V → List Nat) (sem : Nat → List (Option V) → Res (List (Option V)))
    (g : Graph V) (ins : List (String × V)) (e : Err)
    (hv : validateShapes g.decls (g.inits.map (·.1)) (ins.map fun (n, v) => (n, shapeOf v)) = .error e) :
    run shapeOf sem g ins = .error e := by
  unfold run
  rw [hv]

theorem env0_find (g : Graph V) (ins : List (String × V)) (a : String) :
    (env0 g ins).find a =
      ((List.lookup a ins.reverse).map some).or ((List.lookup a g.inits.reverse).map some) := by
  simp only [env0, Env.find, List.lookup_append, ← List.map_reverse, lookup_map_some]

theorem run_missing (shapeOf : V → List Nat) (sem : Nat → List (Option V) → Res (List (Option V)))
    (g : Graph V) (ins : List (String × V)) (o : String) (ho : o ∈ g.outputs)
    (hno : o ∉ available g ins g.nodes.length) : ∃ e, run shapeOf sem g ins = .error e := by
  cases hr : run shapeOf sem g ins with
  | error e => exact ⟨e, rfl⟩
  | ok outs =>
    exfalso
    obtain ⟨env, henv, hc⟩ := run_ok hr
    simp only [available, List.take_length, List.mem_append, not_or] at hno
    obtain ⟨⟨hins, hinits⟩, hnodes⟩ := hno
    have h0 : (env0 g ins).find o = none := by
      rw [env0_find]
      have h1 : List.lookup o ins.reverse = none := by
        apply lookup_eq_none_of_not_mem
        rw [List.map_reverse, List.mem_reverse]; exact hins
      have h2 : List.lookup o g.inits.reverse = none := by
        apply lookup_eq_none_of_not_mem
        rw [List.map_reverse, List.mem_reverse]; exact hinits
      rw [h1, h2]; rfl
    have hf := runNodes_find_none sem o g.nodes 0 _ env henv h0 hnodes
    obtain ⟨e, he⟩ := collect_missing env o hf g.outputs ho
    rw [he] at hc; cases hc

/-! ### `Spec.value` -/

/-- the value of `name` as output of node `n` (index `i`), given the values `F` of its inputs -/
def nodeVal (sem : Nat → List (Option V) → Res (List (Option V))) (F : String → Res (Option V))
    (n : GNode) (i : Nat) (name : String) : Res (Option V) :=
  match n.ins.mapM (fun a => if a = "" then (.ok none : Res (Option V)) else F a) with
  | .error e => .error e
  | .ok vs =>
    match sem i vs with
    | .error e => .error e
    | .ok outs =>
      if outs.length ≠ n.outs.length then .error .model
      else .ok (outs.getD (n.outs.idxOf name) none)

theorem value_succ (sem : Nat → List (Option V) → Res (List (Option V))) (g : Graph V)
    (ins : List (String × V)) (fuel : Nat) (name : String) :
    Spec.value sem g ins (fuel+1) name =
      match List.lookup name ins with
      | some v => .ok (some v)
      | none =>
        match List.lookup name g.inits with
        | some v => .ok (some v)
        | none =>
          match (g.nodes.zipIdx.filter fun (n, _) => n.outs.contains name).getLast? with
          | none => .error .model
          | some (n, i) => nodeVal sem (Spec.value sem g ins fuel) n i name := rfl

theorem mapM_cons_ok {α β : Type} (f : α → Res β) (a : α) (l : List α) (vs : List β) :
    (a :: l).mapM f = .ok vs ↔ ∃ v vs', f a = .ok v ∧ l.mapM f = .ok vs' ∧ vs = v :: vs' := by
  rw [List.mapM_cons]
  cases f a <;> cases l.mapM f <;> simp [bind, Except.bind, pure, Except.pure, eq_comm]

theorem mapM_ok_mono (F G : String → Res (Option V)) :
    ∀ (l : List String) (vs : List (Option V)),
      (∀ a ∈ l, a ≠ "" → ∀ w, F a = .ok w → G a = .ok w) →
      l.mapM (fun a => if a = "" then (.ok none : Res (Option V)) else F a) = .ok vs →
      l.mapM (fun a => if a = "" then (.ok none : Res (Option V)) else G a) = .ok vs
  | [], vs, _, h => by simpa using h
  | a :: l, vs, hFG, h => by
    rw [mapM_cons_ok] at h ⊢
    obtain ⟨v, vs', h1, h2, rfl⟩ := h
    refine ⟨v, vs', ?_, mapM_ok_mono F G l vs' (fun b hb => hFG b (List.mem_cons_of_mem _ hb)) h2, rfl⟩
    by_cases ha : a = ""
    · simpa [ha] using h1
    · simp only [ha, if_false] at h1 ⊢
      exact hFG a (List.mem_cons_self) ha v h1

theorem mapM_ok_of_gather (env : Env V) (F : String → Res (Option V)) :
    ∀ (l : List String) (vs : List (Option V)), gatherInputs env l = .ok vs →
      (∀ a ∈ l, a ≠ "" → ∀ w, env.find a = some w → F a = .ok w) →
      l.mapM (fun a => if a = "" then (.ok none : Res (Option V)) else F a) = .ok vs
  | [], vs, h, _ => by
    simp only [gatherInputs] at h
    cases h; rfl
  | a :: l, vs, h, hF => by
    rw [mapM_cons_ok]
    unfold gatherInputs at h
    have ih := fun vs' h' => mapM_ok_of_gather env F l vs' h' (fun b hb => hF b (List.mem_cons_of_mem _ hb))
    by_cases ha : a = ""
    · simp only [ha, if_true] at h ⊢
      cases hr : gatherInputs env l with
      | error e => rw [hr] at h; cases h
      | ok vs' =>
        rw [hr] at h; simp only [Except.map] at h; cases h
        exact ⟨none, vs', rfl, ih vs' hr, rfl⟩
    · simp only [ha, if_false] at h ⊢
      split at h
      · cases h
      · rename_i w hw
        cases hr : gatherInputs env l with
        | error e => rw [hr] at h; cases h
        | ok vs' =>
          rw [hr] at h; simp only [Except.map] at h; cases h
          exact ⟨w, vs', hF a List.mem_cons_self ha w hw, ih vs' hr, rfl⟩

theorem nodeVal_mono (sem : Nat → List (Option V) → Res (List (Option V))) (F G : String → Res (Option V))
    (n : GNode) (i : Nat) (name : String) (w : Option V)
    (hFG : ∀ a ∈ n.ins, a ≠ "" → ∀ w, F a = .ok w → G a = .ok w)
    (h : nodeVal sem F n i name = .ok w) : nodeVal sem G n i name = .ok w := by
  unfold nodeVal at h ⊢
  split at h
  · cases h
  · rename_i vs hvs
    rw [mapM_ok_mono F G n.ins vs hFG hvs]
    exact h

/-- more fuel never changes a value already obtained -/
theorem value_mono (sem : Nat → List (Option V) → Res (List (Option V))) (g : Graph V) (ins : List (String × V)) :
    ∀ (f : Nat) (name : String) (w : Option V), Spec.value sem g ins f name = .ok w →
      ∀ f', f ≤ f' → Spec.value sem g ins f' name = .ok w
  | 0, name, w, h, _, _ => by
    unfold Spec.value at h; cases h
  | f+1, name, w, h, f', hle => by
    obtain ⟨f'', rfl⟩ : ∃ f'', f' = f'' + 1 := ⟨f' - 1, by omega⟩
    rw [value_succ] at h ⊢
    split
    · rename_i v hv; rw [hv] at h; exact h
    · rename_i hv; rw [hv] at h
      simp only at h ⊢
      split
      · rename_i v hv2; rw [hv2] at h; exact h
      · rename_i hv2; rw [hv2] at h
        simp only at h ⊢
        split
        · rename_i hl; rw [hl] at h; exact h
        · rename_i n i hl; rw [hl] at h
          simp only at h ⊢
          exact nodeVal_mono sem _ _ n i name w
            (fun a _ _ w' hw' => value_mono sem g ins f a w' hw' f'' (by omega)) h

/-! ### the producer of a name -/

theorem filter_zipIdx_nil (q : GNode × Nat → Bool) :
    ∀ (l : List GNode) (k : Nat), (∀ m ∈ l, ∀ i, q (m, i) = false) → (l.zipIdx k).filter q = []
  | [], _, _ => by simp
  | m :: l, k, h => by
    rw [List.zipIdx_cons, List.filter_cons, h m List.mem_cons_self k]
    simpa using filter_zipIdx_nil q l (k+1) (fun m' hm' => h m' (List.mem_cons_of_mem _ hm'))

theorem filter_zipIdx_unique (q : GNode × Nat → Bool) (n : GNode) (rest : List GNode)
    (hn : ∀ i, q (n, i) = true) (hrest : ∀ m ∈ rest, ∀ i, q (m, i) = false) :
    ∀ (pre : List GNode) (k : Nat), (∀ m ∈ pre, ∀ i, q (m, i) = false) →
      ((pre ++ n :: rest).zipIdx k).filter q = [(n, k + pre.length)]
  | [], k, _ => by
    rw [List.nil_append, List.zipIdx_cons, List.filter_cons, hn k, filter_zipIdx_nil q rest (k+1) hrest]
    simp
  | p :: pre, k, h => by
    rw [List.cons_append, List.zipIdx_cons, List.filter_cons, h p List.mem_cons_self k]
    simp only [Bool.false_eq_true, if_false]
    rw [filter_zipIdx_unique q n rest hn hrest pre (k+1) (fun m' hm' => h m' (List.mem_cons_of_mem _ hm'))]
    simp only [List.length_cons]
    congr 2; omega

theorem ssa_split (pre : List GNode) (n : GNode) (rest : List GNode)
    (h : (((pre ++ n :: rest).map (·.outs)).flatten).Nodup) :
    n.outs.Nodup ∧ ∀ name ∈ n.outs, (∀ m ∈ pre, name ∉ m.outs) ∧ (∀ m ∈ rest, name ∉ m.outs) := by
  simp only [List.map_append, List.map_cons, List.flatten_append, List.flatten_cons,
    List.nodup_append] at h
  obtain ⟨_, ⟨hn, _, hnr⟩, hpn⟩ := h
  refine ⟨hn, fun name hname => ⟨fun m hm hmem => ?_, fun m hm hmem => ?_⟩⟩
  · have h1 : name ∈ (pre.map (·.outs)).flatten :=
      List.mem_flatten.mpr ⟨m.outs, List.mem_map.mpr ⟨m, hm, rfl⟩, hmem⟩
    exact hpn name h1 name (List.mem_append_left _ hname) rfl
  · have h1 : name ∈ (rest.map (·.outs)).flatten :=
      List.mem_flatten.mpr ⟨m.outs, List.mem_map.mpr ⟨m, hm, rfl⟩, hmem⟩
    exact hnr name hname name h1 rfl

theorem producer_unique (pre : List GNode) (n : GNode) (rest : List GNode)
    (hssa : (((pre ++ n :: rest).map (·.outs)).flatten).Nodup) (name : String) (hname : name ∈ n.outs) :
    (((pre ++ n :: rest).zipIdx).filter fun (m, _) => m.outs.contains name).getLast? = some (n, pre.length) := by
  obtain ⟨_, hdisj⟩ := ssa_split pre n rest hssa
  obtain ⟨hpre, hrest⟩ := hdisj name hname
  rw [filter_zipIdx_unique _ n rest (fun _ => by simpa using hname)
    (fun m hm _ => by simpa using hrest m hm) pre 0 (fun m hm _ => by simpa using hpre m hm)]
  simp

/-! ### the invariant of the node loop -/

/-- after `i` nodes: whatever the environment binds a name to is the demand-driven value of the
name, for every fuel `≥ i + 1` -/
def Inv (sem : Nat → List (Option V) → Res (List (Option V))) (g : Graph V) (ins : List (String × V))
    (i : Nat) (env : Env V) : Prop :=
  ∀ name w, env.find name = some w → ∀ fuel, i + 1 ≤ fuel → Spec.value sem g ins fuel name = .ok w

theorem inv_env0 (sem : Nat → List (Option V) → Res (List (Option V))) (g : Graph V) (ins : List (String × V))
    (hnames : FirstBindingWins g ins) : Inv sem g ins 0 (env0 g ins) := by
  intro name w hf fuel hfuel
  obtain ⟨f, rfl⟩ : ∃ f, fuel = f + 1 := ⟨fuel - 1, by omega⟩
  rw [env0_find, hnames.1, hnames.2] at hf
  rw [value_succ]
  cases h1 : List.lookup name ins with
  | some v => rw [h1] at hf; simp at hf; simp [hf]
  | none =>
    rw [h1] at hf
    cases h2 : List.lookup name g.inits with
    | some v => rw [h2] at hf; simp at hf; simp [hf]
    | none => rw [h2] at hf; simp at hf

theorem inv_step (sem : Nat → List (Option V) → Res (List (Option V))) (g : Graph V) (ins : List (String × V))
    (hssa : ((g.nodes.map (·.outs)).flatten).Nodup)
    (hfresh : ∀ o ∈ (g.nodes.map (·.outs)).flatten, o ∉ ins.map (·.1) ∧ o ∉ g.inits.map (·.1))
    (pre : List GNode) (n : GNode) (rest : List GNode) (hsplit : g.nodes = pre ++ n :: rest)
    (env env' : Env V) (vs outs : List (Option V))
    (hinv : Inv sem g ins pre.length env) (hg : gatherInputs env n.ins = .ok vs)
    (hs : sem pre.length vs = .ok outs) (hb : bindOutputs env n.outs outs = .ok env') :
    Inv sem g ins (pre.length + 1) env' := by
  intro name w hf fuel hfuel
  by_cases hmem : name ∈ n.outs
  · obtain ⟨f, rfl⟩ : ∃ f, fuel = f + 1 := ⟨fuel - 1, by omega⟩
    have hssa' := hssa
    rw [hsplit] at hssa'
    have hnd := (ssa_split pre n rest hssa').1
    have hk : n.outs.idxOf name < n.outs.length := List.idxOf_lt_length_of_mem hmem
    have hget : n.outs[n.outs.idxOf name] = name := List.getElem_idxOf hk
    have hpos := bind_find_mem env n.outs outs env' hnd hb _ hk
    rw [hget, hf] at hpos
    cases hpos
    have hall : name ∈ (g.nodes.map (·.outs)).flatten := by
      rw [hsplit]
      exact List.mem_flatten.mpr ⟨n.outs, List.mem_map.mpr ⟨n, by simp, rfl⟩, hmem⟩
    have h1 : List.lookup name ins = none := lookup_eq_none_of_not_mem _ _ (hfresh name hall).1
    have h2 : List.lookup name g.inits = none := lookup_eq_none_of_not_mem _ _ (hfresh name hall).2
    have h3 : (g.nodes.zipIdx.filter fun (m, _) => m.outs.contains name).getLast? = some (n, pre.length) := by
      rw [hsplit]; exact producer_unique pre n rest hssa' name hmem
    have hargs : n.ins.mapM (fun a => if a = "" then (.ok none : Res (Option V)) else Spec.value sem g ins f a) = .ok vs :=
      mapM_ok_of_gather env _ n.ins vs hg (fun a _ _ w' hw' => hinv a w' hw' f (by omega))
    have hlen := (bind_ok hb).1
    rw [value_succ, h1, h2]
    simp only
    rw [h3]
    simp only [nodeVal, hargs, hs]
    simp [hlen]
  · rw [bind_find_not_mem env n.outs outs env' hb name hmem] at hf
    exact hinv name w hf fuel (by omega)

theorem inv_runNodes (sem : Nat → List (Option V) → Res (List (Option V))) (g : Graph V) (ins : List (String × V))
    (hssa : ((g.nodes.map (·.outs)).flatten).Nodup)
    (hfresh : ∀ o ∈ (g.nodes.map (·.outs)).flatten, o ∉ ins.map (·.1) ∧ o ∉ g.inits.map (·.1)) :
    ∀ (rest pre : List GNode) (env envF : Env V), g.nodes = pre ++ rest →
      Inv sem g ins pre.length env → runNodes sem pre.length rest env = .ok envF →
      Inv sem g ins g.nodes.length envF
  | [], pre, env, envF, hsplit, hinv, h => by
    simp only [runNodes] at h
    cases h
    rw [hsplit, List.append_nil]; exact hinv
  | n :: rest, pre, env, envF, hsplit, hinv, h => by
    obtain ⟨vs, outs, env', h1, h2, h3, h4⟩ := runNodes_cons_ok h
    have hstep := inv_step sem g ins hssa hfresh pre n rest hsplit env env' vs outs hinv h1 h2 h3
    have hlen : (pre ++ [n]).length = pre.length + 1 := by simp
    rw [← hlen] at hstep h4
    exact inv_runNodes sem g ins hssa hfresh rest (pre ++ [n]) env' envF (by simp [hsplit]) hstep h4

/-- the main refinement, under `FirstBindingWins` -/
theorem run_refines (shapeOf : V → List Nat) (sem : Nat → List (Option V) → Res (List (Option V)))
    (g : Graph V) (ins : List (String × V)) (hwf : WF g ins) (hnames : FirstBindingWins g ins)
    (outs : List (String × V)) (h : run shapeOf sem g ins = .ok outs) :
    ∀ o v, (o, v) ∈ outs → Spec.value sem g ins (g.nodes.length + 1) o = .ok (some v) := by
  intro o v hov
  obtain ⟨env, henv, hc⟩ := run_ok h
  have hinv := inv_runNodes sem g ins hwf.ssa hwf.fresh g.nodes [] (env0 g ins) env (by simp)
    (inv_env0 sem g ins hnames) henv
  exact hinv o (some v) (collect_mem env g.outputs outs hc o v hov) _ (Nat.le_refl _)

end Gonnx.Proofs.Run
