import Gonnx.Graph.Concurrent
/-
Helper lemmas for C17: the interleaving invariant of `runSched` under the `Disciplined` premise.
-/
namespace Gonnx.Proofs.Concurrent
open Gonnx.Conc
variable {V : Type}

/-! ### `solo`, `writes`, `reads` -/

theorem solo_append (p q : List (Instr V)) (r : Regs V) (σ : St V) :
    solo (p ++ q) r σ = solo q (solo p r σ).1 (solo p r σ).2 := by
  induction p generalizing r σ with
  | nil => rfl
  | cons i p ih => simp only [List.cons_append, solo]; exact ih _ _

theorem solo_snoc (p : List (Instr V)) (i : Instr V) (r : Regs V) (σ : St V) :
    solo (p ++ [i]) r σ = stepI i (solo p r σ).1 (solo p r σ).2 := by
  rw [solo_append]; rfl

theorem store_mem_writes (p : List (Instr V)) (o : Obj) (f : Regs V → V) (h : Instr.store o f ∈ p) :
    o ∈ writes p := by
  unfold writes
  rw [List.mem_filterMap]
  exact ⟨_, h, rfl⟩

theorem load_mem_reads (p : List (Instr V)) (o : Obj) (h : (Instr.load o : Instr V) ∈ p) :
    o ∈ reads p := by
  unfold reads
  rw [List.mem_filterMap]
  exact ⟨_, h, rfl⟩

/-! ### no conflict -/

theorem no_conflict (progs : List (List (Instr V))) (priv : Nat → Obj → Bool) (hd : Disciplined progs priv)
    (k l : Nat) (p q : List (Instr V)) (hk : progs[k]? = some p) (hl : progs[l]? = some q)
    (i j : Instr V) (hi : i ∈ p) (hj : j ∈ q) : ¬ Conflict k i l j := by
  rintro ⟨hne, hc⟩
  cases i with
  | load o =>
    cases j with
    | load o' => exact hc
    | store o' g =>
      have hc : o = o' := hc
      subst hc
      have h1 := hd.writes_private l q hl o (store_mem_writes q o g hj)
      have h2 := hd.reads_ok k p hk o (load_mem_reads p o hi) l (fun h => hne h.symm)
      rw [h1] at h2; cases h2
  | store o f =>
    have h1 := hd.writes_private k p hk o (store_mem_writes p o f hi)
    cases j with
    | load o' =>
      have hc : o = o' := hc
      subst hc
      have h2 := hd.reads_ok l q hl o (load_mem_reads q o hj) k hne
      rw [h1] at h2; cases h2
    | store o' g =>
      have hc : o = o' := hc
      subst hc
      have h2 := hd.writes_private l q hl o (store_mem_writes q o g hj)
      have h3 := hd.disjoint k l o hne h1
      rw [h2] at h3; cases h3

/-! ### the invariant of `runSched` -/

/-- every current program is a suffix of the corresponding original program -/
def Suff (progs ps : List (List (Instr V))) : Prop :=
  ∀ (k : Nat) (q : List (Instr V)), ps[k]? = some q → ∃ p done, progs[k]? = some p ∧ p = done ++ q

theorem Suff_refl (progs : List (List (Instr V))) : Suff progs progs :=
  fun _ q h => ⟨q, [], h, rfl⟩

theorem Suff_step (progs ps : List (List (Instr V))) (hs : Suff progs ps) (l : Nat) (i : Instr V)
    (rest : List (Instr V)) (hl : ps[l]? = some (i :: rest)) : Suff progs (ps.set l rest) := by
  intro k q hq
  by_cases hkl : l = k
  · subst hkl
    obtain ⟨p, done, hp, he⟩ := hs l _ hl
    have hlt : l < ps.length := by
      rcases Nat.lt_or_ge l ps.length with h | h
      · exact h
      · rw [List.getElem?_eq_none h] at hl; cases hl
    rw [List.getElem?_set_self hlt] at hq
    cases hq
    exact ⟨p, done ++ [i], hp, by rw [he]; simp⟩
  · rw [List.getElem?_set_ne hkl] at hq
    exact hs k q hq

/-- the instruction a thread is about to execute belongs to its original program -/
theorem Suff_mem (progs ps : List (List (Instr V))) (hs : Suff progs ps) (l : Nat) (i : Instr V)
    (rest : List (Instr V)) (hl : ps[l]? = some (i :: rest)) : ∃ p, progs[l]? = some p ∧ i ∈ p := by
  obtain ⟨p, done, hp, he⟩ := hs l _ hl
  exact ⟨p, hp, by rw [he]; simp⟩

/-- induction principle: a property preserved by every scheduled step (from a configuration whose
programs are suffixes of the original ones) holds after any schedule -/
theorem runSched_inv (progs : List (List (Instr V)))
    (P : List (List (Instr V)) → List (Regs V) → St V → Prop)
    (hstep : ∀ ps rs σ l i rest r, Suff progs ps → P ps rs σ → ps[l]? = some (i :: rest) → rs[l]? = some r →
      P (ps.set l rest) (rs.set l (stepI i r σ).1) (stepI i r σ).2)
    (sched : Schedule) : ∀ ps rs σ, Suff progs ps → P ps rs σ →
      P (runSched sched ps rs σ).1 (runSched sched ps rs σ).2.1 (runSched sched ps rs σ).2.2 := by
  induction sched with
  | nil => intro ps rs σ _ h; exact h
  | cons l sched ih =>
    intro ps rs σ hs h
    unfold runSched
    split
    · next i rest r hp hr =>
      exact ih _ _ _ (Suff_step progs ps hs l i rest hp) (hstep ps rs σ l i rest r hs h hp hr)
    · exact ih _ _ _ hs h

/-- what thread `k` sees: a split of its program, its registers, and the objects it may read -/
def ThreadInv (priv : Nat → Obj → Bool) (σ0 : St V) (k : Nat) (p : List (Instr V)) (r0 : Regs V)
    (ps : List (List (Instr V))) (rs : List (Regs V)) (σ : St V) : Prop :=
  ∃ done rest, p = done ++ rest ∧ ps[k]? = some rest ∧ rs[k]? = some (solo done r0 σ0).1 ∧
    ∀ o, (∀ l, l ≠ k → priv l o = false) → σ o = (solo done r0 σ0).2 o

theorem getElem?_lt {β : Type} (l : List β) (k : Nat) (x : β) (h : l[k]? = some x) : k < l.length := by
  rcases Nat.lt_or_ge k l.length with h' | h'
  · exact h'
  · rw [List.getElem?_eq_none h'] at h; cases h

theorem ThreadInv_step (progs : List (List (Instr V))) (priv : Nat → Obj → Bool) (hd : Disciplined progs priv)
    (σ0 : St V) (k : Nat) (p : List (Instr V)) (hk : progs[k]? = some p) (r0 : Regs V)
    (ps : List (List (Instr V))) (rs : List (Regs V)) (σ : St V) (l : Nat) (i : Instr V)
    (rest' : List (Instr V)) (r : Regs V) (hs : Suff progs ps)
    (h : ThreadInv priv σ0 k p r0 ps rs σ) (hp : ps[l]? = some (i :: rest')) (hr : rs[l]? = some r) :
    ThreadInv priv σ0 k p r0 (ps.set l rest') (rs.set l (stepI i r σ).1) (stepI i r σ).2 := by
  obtain ⟨done, rest, hsplit, hps, hrs, hσ⟩ := h
  by_cases hlk : l = k
  · subst hlk
    rw [hps] at hp; cases hp
    rw [hrs] at hr; cases hr
    have hi : i ∈ p := by rw [hsplit]; simp
    refine ⟨done ++ [i], rest', by rw [hsplit]; simp, ?_, ?_, ?_⟩
    · rw [List.getElem?_set_self (getElem?_lt _ _ _ hps)]
    · rw [List.getElem?_set_self (getElem?_lt _ _ _ hrs), solo_snoc]
      cases i with
      | load o =>
        have := hσ o (hd.reads_ok l p hk o (load_mem_reads p o hi))
        simp only [stepI, this]
      | store o f => rfl
    · intro x hx
      rw [solo_snoc]
      cases i with
      | load o => exact hσ x hx
      | store o f =>
        simp only [stepI]
        rw [hσ x hx]
  · refine ⟨done, rest, hsplit, ?_, ?_, ?_⟩
    · rw [List.getElem?_set_ne hlk]; exact hps
    · rw [List.getElem?_set_ne hlk]; exact hrs
    · intro x hx
      cases i with
      | load o => exact hσ x hx
      | store o f =>
        obtain ⟨q, hq, hiq⟩ := Suff_mem progs ps hs l _ rest' hp
        have h1 := hd.writes_private l q hq o (store_mem_writes q o f hiq)
        have hne : x ≠ o := by
          intro he; subst he
          rw [hx l hlk] at h1; cases h1
        simp only [stepI, if_neg hne]
        exact hσ x hx

theorem interleave_result (progs : List (List (Instr V))) (priv : Nat → Obj → Bool) (hd : Disciplined progs priv)
    (sched : Schedule) (rs0 : List (Regs V)) (σ0 : St V)
    (k : Nat) (p : List (Instr V)) (hk : progs[k]? = some p) (r0 : Regs V) (hr : rs0[k]? = some r0) :
    ThreadInv priv σ0 k p r0 (runSched sched progs rs0 σ0).1 (runSched sched progs rs0 σ0).2.1
      (runSched sched progs rs0 σ0).2.2 := by
  apply runSched_inv progs (ThreadInv priv σ0 k p r0)
  · intro ps rs σ l i rest r hs h hp hr
    exact ThreadInv_step progs priv hd σ0 k p hk r0 ps rs σ l i rest r hs h hp hr
  · exact Suff_refl progs
  · exact ⟨[], p, rfl, hk, hr, fun _ _ => rfl⟩

theorem complete_result (progs : List (List (Instr V))) (priv : Nat → Obj → Bool) (hd : Disciplined progs priv)
    (sched : Schedule) (rs0 : List (Regs V)) (σ0 : St V)
    (hc : Complete sched progs rs0 σ0)
    (k : Nat) (p : List (Instr V)) (hk : progs[k]? = some p) (r0 : Regs V) (hr : rs0[k]? = some r0) :
    (runSched sched progs rs0 σ0).2.1[k]? = some (solo p r0 σ0).1 := by
  obtain ⟨done, rest, hsplit, hps, hrs, _⟩ := interleave_result progs priv hd sched rs0 σ0 k p hk r0 hr
  unfold Complete at hc
  rw [hc, List.getElem?_map, hk] at hps
  simp only [Option.map_some, Option.some.injEq] at hps
  subst hps
  rw [List.append_nil] at hsplit
  subst hsplit
  exact hrs

theorem shared_unchanged (progs : List (List (Instr V))) (priv : Nat → Obj → Bool) (hd : Disciplined progs priv)
    (sched : Schedule) (rs0 : List (Regs V)) (σ0 : St V) (o : Obj) (ho : ∀ k, priv k o = false) :
    (runSched sched progs rs0 σ0).2.2 o = σ0 o := by
  apply runSched_inv progs (fun _ _ σ => σ o = σ0 o)
  · intro ps rs σ l i rest r hs h hp _
    cases i with
    | load o' => exact h
    | store o' f =>
      obtain ⟨q, hq, hiq⟩ := Suff_mem progs ps hs l _ rest hp
      have h1 := hd.writes_private l q hq o' (store_mem_writes q o' f hiq)
      have hne : o ≠ o' := by
        intro he; subst he
        rw [ho l] at h1; cases h1
      simp only [stepI, if_neg hne]
      exact h
  · exact Suff_refl progs
  · rfl

end Gonnx.Proofs.Concurrent
