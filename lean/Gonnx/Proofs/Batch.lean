import Gonnx.Graph.Batch
import Gonnx.Proofs.Binary
import Gonnx.Proofs.MatMul
/-
Helper lemmas for C16: extensionality of dense tensors, `takeBatch`, per-sample operators.
-/
namespace Gonnx.Proofs.Batch
open Gonnx Gonnx.Proofs
variable {α β γ : Type}

/-! ### every flat offset is the ravel of an in-range index -/

theorem exists_idx (s : List Nat) (i : Nat) (h : i < prod s) : ∃ idx, InRange idx s ∧ ravel s idx = i := by
  induction s generalizing i with
  | nil => exact ⟨[], trivial, by simp [prod] at h; simp [ravel, h]⟩
  | cons n s ih =>
    simp only [prod] at h
    have hpos : 0 < prod s := by
      rcases Nat.eq_zero_or_pos (prod s) with h0 | h0
      · rw [h0] at h; simp at h
      · exact h0
    obtain ⟨idx, hin, hr⟩ := ih (i % prod s) (Nat.mod_lt _ hpos)
    refine ⟨(i / prod s) :: idx, ⟨?_, hin⟩, ?_⟩
    · exact Nat.div_lt_of_lt_mul (by rw [Nat.mul_comm]; exact h)
    · simp only [ravel, hr]
      exact Nat.div_add_mod' i (prod s)

/-! ### extensionality -/

theorem tensor_ext [Inhabited α] (a b : Tensor α) (h : Equiv a b) : a = b := by
  obtain ⟨hs, ha, hb, hg⟩ := h
  obtain ⟨sa, da⟩ := a
  obtain ⟨sb, db⟩ := b
  simp only at hs
  subst hs
  simp only [Tensor.WF] at ha hb
  congr 1
  apply List.ext_getElem (by rw [ha, hb])
  intro i h1 h2
  obtain ⟨idx, hin, hr⟩ := exists_idx sa i (by rw [← ha]; exact h1)
  have := hg idx hin
  simp only [Tensor.get, hr, List.getD, List.getElem?_eq_getElem h1, List.getElem?_eq_getElem h2,
    Option.getD_some] at this
  exact this

theorem ofFn_congr (s : List Nat) (f g : List Nat → α) (h : ∀ idx, InRange idx s → f idx = g idx) :
    ofFn s f = ofFn s g := by
  unfold ofFn
  congr 1
  apply List.map_congr_left
  intro idx hidx
  exact h idx (mem_allIdx.mp hidx)

theorem map_get' [Inhabited α] [Inhabited β] (f : α → β) (t : Tensor α) (h : t.WF) (idx : List Nat)
    (hi : InRange idx t.shape) : (t.map f).get idx = f (t.get idx) := by
  have hlt := ravel_lt _ _ hi
  rw [← h] at hlt
  simp [Tensor.get, Tensor.map, List.getD, List.getElem?_map, List.getElem?_eq_getElem hlt]

/-! ### indices of a sample -/

theorem InRange_set (s idx : List Nat) (ax n : Nat) (h : InRange idx (s.set ax 1)) (hn : n < dim s ax) :
    InRange (idx.set ax n) s := by
  induction s generalizing idx ax with
  | nil => simp [dim] at hn
  | cons d s ih =>
    cases ax with
    | zero =>
      cases idx with
      | nil => simp [InRange] at h
      | cons i is =>
        simp only [List.set_cons_zero, InRange] at h ⊢
        exact ⟨by simpa [dim] using hn, h.2⟩
    | succ ax =>
      cases idx with
      | nil => simp [InRange] at h
      | cons i is =>
        simp only [List.set_cons_succ, InRange] at h ⊢
        exact ⟨h.1, ih is ax h.2 (by simpa [dim] using hn)⟩

theorem set_zero_of_InRange (s idx : List Nat) (ax : Nat) (h : InRange idx (s.set ax 1)) :
    idx.set ax 0 = idx := by
  induction s generalizing idx ax with
  | nil =>
    cases idx with
    | nil => simp
    | cons i is => simp [InRange] at h
  | cons d s ih =>
    cases idx with
    | nil => simp
    | cons i is =>
      cases ax with
      | zero =>
        simp only [List.set_cons_zero, InRange] at h ⊢
        have : i = 0 := by omega
        rw [this]
      | succ ax =>
        simp only [List.set_cons_succ, InRange] at h ⊢
        rw [ih is ax h.2]

/-! ### `takeBatch` -/

theorem Good_ofFn_set (s : List Nat) (ax : Nat) (f : List Nat → α) (hs : ∀ d ∈ s, 0 < d) :
    Good (ofFn (s.set ax 1) f) := by
  refine ⟨ofFn_WF _ _, ?_⟩
  intro d hd
  simp only [ofFn_shape] at hd
  rcases List.mem_or_eq_of_mem_set hd with h | h
  · exact hs d h
  · omega

theorem takeBatch_good [Inhabited α] (ax n : Nat) (t : Tensor α) (hg : Good t) :
    Good (takeBatch ax n t) ∧ (takeBatch ax n t).shape = t.shape.set ax 1 :=
  ⟨Good_ofFn_set _ _ _ hg.2, rfl⟩

theorem takeBatch_get [Inhabited α] (ax n : Nat) (t : Tensor α) (idx : List Nat)
    (h : InRange idx (t.shape.set ax 1)) : (takeBatch ax n t).get idx = t.get (idx.set ax n) := by
  unfold takeBatch
  rw [get_ofFn _ _ _ h]

theorem takeBatch_idem [Inhabited α] (ax n : Nat) (t : Tensor α) :
    takeBatch ax 0 (takeBatch ax n t) = takeBatch ax n t := by
  have hshape : (takeBatch ax n t).shape.set ax 1 = t.shape.set ax 1 := by
    simp [takeBatch, List.set_set]
  show ofFn ((takeBatch ax n t).shape.set ax 1) (fun idx => (takeBatch ax n t).get (idx.set ax 0)) =
    ofFn (t.shape.set ax 1) (fun idx => t.get (idx.set ax n))
  rw [hshape]
  apply ofFn_congr
  intro idx hidx
  rw [set_zero_of_InRange _ _ _ hidx, takeBatch_get _ _ _ _ hidx]

/-! ### per-sample operators -/

theorem compose [Inhabited α] [Inhabited β] [Inhabited γ] (ax ax' ax'' : Nat)
    (f : Tensor α → Res (Tensor β)) (g : Tensor β → Res (Tensor γ))
    (hf : BatchPointwise ax ax' f) (hg : BatchPointwise ax' ax'' g) :
    BatchPointwise ax ax'' (fun X => match f X with | .ok Y => g Y | .error e => .error e) := by
  intro X Z hX hax h
  simp only at h
  split at h
  · next Y hY =>
    obtain ⟨gY, aY, dY, sY⟩ := hf X Y hX hax hY
    obtain ⟨gZ, aZ, dZ, sZ⟩ := hg Y Z gY aY h
    refine ⟨gZ, aZ, by rw [dZ, dY], ?_⟩
    intro n hn
    simp only [sY n hn]
    exact sZ n (by rw [dY]; exact hn)
  · cases h

theorem unary_takeBatch [Inhabited α] [Inhabited β] (ax n : Nat) (f : α → β) (X : Tensor α) (hX : X.WF)
    (hn : n < dim X.shape ax) : unaryOp f (takeBatch ax n X) = takeBatch ax n (unaryOp f X) := by
  show (⟨X.shape.set ax 1, ((allIdx (X.shape.set ax 1)).map fun idx => X.get (idx.set ax n)).map f⟩ : Tensor β) =
    ⟨X.shape.set ax 1, (allIdx (X.shape.set ax 1)).map fun idx => (X.map f).get (idx.set ax n)⟩
  congr 1
  rw [List.map_map]
  apply List.map_congr_left
  intro idx hidx
  have := InRange_set _ _ ax n (mem_allIdx.mp hidx) hn
  simp only [Function.comp]
  rw [map_get' f X hX _ this]

theorem unary_pointwise [Inhabited α] [Inhabited β] (ax : Nat) (f : α → β) :
    BatchPointwise ax ax (fun X => (.ok (unaryOp f X) : Res (Tensor β))) := by
  intro X Y hX hax h
  cases h
  refine ⟨⟨?_, hX.2⟩, hax, rfl, ?_⟩
  · have := hX.1
    simpa [Tensor.WF, unaryOp, Tensor.map] using this
  · intro n hn
    simp only
    rw [unary_takeBatch ax n f X hX.1 hn]

theorem matmul_weight_pointwise [Inhabited α] (A : Arith α) (W : Tensor α) (hW : Good W) :
    BatchPointwise 0 0 (fun X => mm2 A X W) := by
  intro X Y hX _ h
  simp only at h
  obtain ⟨n, k, m, hXs, hWs⟩ := MatMul.mm2_inv A X W Y h
  rw [MatMul.mm2_ok A X W n k m hXs hWs] at h
  cases h
  have hn : 0 < n := hX.2 n (by rw [hXs]; simp)
  have hm : 0 < m := hW.2 m (by rw [hWs]; simp)
  refine ⟨⟨ofFn_WF _ _, ?_⟩, by simp, by simp [hXs, dim], ?_⟩
  · intro d hd
    simp only [ofFn_shape, List.mem_cons, List.not_mem_nil, or_false] at hd
    rcases hd with h | h <;> omega
  · intro i hi
    simp only [hXs, dim, List.getD_cons_zero] at hi
    have hts : (takeBatch 0 i X).shape = [1, k] := by simp [takeBatch, hXs]
    simp only
    rw [MatMul.mm2_ok A (takeBatch 0 i X) W 1 k m hts hWs]
    congr 1
    show _ = ofFn ([n, m].set 0 1) _
    simp only [List.set_cons_zero]
    apply ofFn_congr
    intro idx hidx
    obtain ⟨he, h0, h1⟩ := MatMul.InRange2_inv idx 1 m hidx
    have h00 : idx.getD 0 0 = 0 := by omega
    rw [he, h00]
    simp only [List.set_cons_zero, List.getD_cons_zero, List.getD_cons_succ]
    rw [get_ofFn _ _ _ ((MatMul.InRange2 _ _ _ _).mpr ⟨hi, h1⟩)]
    simp only [List.getD_cons_zero, List.getD_cons_succ]
    apply MatMul.sumRange_congr
    intro l hl
    rw [takeBatch_get 0 i X [0, l] (by simp [hXs, InRange, hl])]
    simp

theorem independent_of_batch [Inhabited α] [Inhabited β] (ax ax' : Nat) (f : Tensor α → Res (Tensor β))
    (hf : BatchPointwise ax ax' f)
    (B1 B2 : Tensor α) (R1 R2 : Tensor β) (n m : Nat)
    (hg1 : Good B1) (hg2 : Good B2) (ha1 : ax < B1.shape.length) (ha2 : ax < B2.shape.length)
    (hn : n < dim B1.shape ax) (hm : m < dim B2.shape ax)
    (h1 : f B1 = .ok R1) (h2 : f B2 = .ok R2)
    (hsame : takeBatch ax n B1 = takeBatch ax m B2) :
    takeBatch ax' n R1 = takeBatch ax' m R2 := by
  have e1 := (hf B1 R1 hg1 ha1 h1).2.2.2 n hn
  have e2 := (hf B2 R2 hg2 ha2 h2).2.2.2 m hm
  rw [hsame, e2] at e1
  exact (Except.ok.inj e1).symm

end Gonnx.Proofs.Batch
