import Gonnx.Ops.Conv
import Gonnx.Spec.Conv
import Gonnx.Proofs.Conv
/-
Helper lemmas for Theorems/C05b.lean (Conv with auto_pad).
-/
namespace Gonnx.Proofs.Conv2
open Gonnx Gonnx.Proofs Gonnx.C05 Gonnx.Proofs.Conv
variable {α : Type} [Inhabited α]

theorem isEmpty_false_of_length {β : Type} (l : List β) (n : Nat) (h : l.length = n) (hn : 0 < n) :
    l.isEmpty = false := by
  cases l with
  | nil => simp at h; omega
  | cons _ _ => rfl

/-- the spatial extents of the dilated kernel as the model computes them are `dkernel w dil` -/
theorem kshape_eq_dkernel (zero : α) (w : Tensor α) (dil : List Nat) (hwl : 2 ≤ w.shape.length)
    (hpw : Pos w.shape) (hdp : Pos dil) :
    (dilatedKernel zero w dil).shape.drop 2 = dkernel w dil := by
  have hk : Pos (w.shape.drop 2) := fun n hn => hpw n (List.mem_of_mem_drop hn)
  unfold dilatedKernel dkernel
  simp only [ofFn_shape]
  rw [List.drop_append_of_le_length (by simp; omega)]
  have : List.drop 2 (List.take 2 w.shape) = [] := by simp
  rw [this, List.nil_append]
  exact dkshape_eq _ _ hk hdp

/-- with an auto_pad mode the model runs exactly as with the explicit pads that `autoPads` computes
(provided that list has the right length, which the NOTSET path checks and the auto_pad path does not) -/
theorem convOp_autopad_eq_explicit (A : Arith α) (x w : Tensor α) (bias : Option (Tensor α))
    (mode : String) (hm : mode ≠ "NOTSET") (dil strides : List Nat) (P : List Int)
    (hrank : x.shape.length = 3 ∨ x.shape.length = 4)
    (hdl : dil.length = x.shape.length - 2)
    (hP : P = autoPads mode (x.shape.drop 2) (if strides.isEmpty then List.replicate (x.shape.length - 2) 1 else strides)
      ((dilatedKernel A.zero w dil).shape.drop 2))
    (hPl : P.length = 2 * (x.shape.length - 2)) :
    convOp A { autoPad := mode, dilations := dil, strides := strides, pads := [] } x w bias =
    convOp A { autoPad := "NOTSET", dilations := dil, strides := strides, pads := P } x w bias := by
  have hde : dil.isEmpty = false := isEmpty_false_of_length dil _ hdl (by omega)
  have hPe : P.isEmpty = false := isEmpty_false_of_length P _ hPl (by omega)
  unfold convOp
  simp only [hde, hPe, List.isEmpty_nil, if_true, Bool.false_eq_true, if_false, ne_eq, hm, not_false_eq_true,
    not_true_eq_false, List.length_replicate, hPl, ← hP]

theorem convPads_length (mode : String) (inDims strides dk : List Nat) :
    (Spec.convPads mode [] inDims strides dk).length = 2 * inDims.length := by
  unfold Spec.convPads
  simp only [List.isEmpty_nil, if_true]
  split
  · simp
  · split
    · simp
    · simp; omega

theorem convPads_notset (P inDims strides dk : List Nat) (hP : P.isEmpty = false) :
    Spec.convPads "NOTSET" P inDims strides dk = P := by
  simp [Spec.convPads, hP]

/-- the ONNX value with an auto_pad mode is the ONNX value with the pads of that mode given explicitly -/
theorem spec_conv_autopad_eq_explicit (A : Arith α) (x w : Tensor α) (bias : Option (Tensor α))
    (mode : String) (dil strides : List Nat)
    (hrank : x.shape.length = 3 ∨ x.shape.length = 4)
    (hdl : dil.length = x.shape.length - 2) (hsl : strides.length = x.shape.length - 2) :
    Spec.conv A mode dil strides [] x w bias =
    Spec.conv A "NOTSET" dil strides (Spec.convPads mode [] (x.shape.drop 2) strides (dkernel w dil)) x w bias := by
  have hde : dil.isEmpty = false := isEmpty_false_of_length dil _ hdl (by omega)
  have hse : strides.isEmpty = false := isEmpty_false_of_length strides _ hsl (by omega)
  have hPe : (Spec.convPads mode [] (x.shape.drop 2) strides (dkernel w dil)).isEmpty = false :=
    isEmpty_false_of_length _ _ (convPads_length _ _ _ _) (by simp; omega)
  unfold Spec.conv
  simp only [hde, hse, Bool.false_eq_true, if_false]
  rw [convPads_notset _ _ _ _ hPe]
  rfl

theorem spec_conv_some_wlen (A : Arith α) (mode : String) (dil strides pads : List Nat) (x w : Tensor α)
    (bias : Option (Tensor α)) (s : Tensor α) (hs : Spec.conv A mode dil strides pads x w bias = some s) :
    w.shape.length = x.shape.length := by
  unfold Spec.conv at hs
  split at hs
  · cases hs
  · rename_i hc
    simp only [not_or, Decidable.not_not] at hc
    exact hc.2.1

theorem conv_autopad_partial (A : Arith α) (hA : ZeroLaws A) (x w : Tensor α) (bias : Option (Tensor α))
    (mode : String) (hm : mode = "SAME_UPPER" ∨ mode = "SAME_LOWER")
    (dil strides : List Nat)
    (hWb : ∀ b, bias = some b → b.WF)
    (hpx : Pos x.shape) (hpw : Pos w.shape)
    (hrank : x.shape.length = 3 ∨ x.shape.length = 4)
    (hdl : dil.length = x.shape.length - 2) (hsl : strides.length = x.shape.length - 2)
    (hdp : ∀ d ∈ dil, 0 < d) (hsp : ∀ s ∈ strides, 0 < s)
    (hk2 : ∀ k ∈ dkernel w dil, 2 ≤ k)
    (hneed : ∀ i, i < x.shape.length - 2 →
      dim (x.shape.drop 2) i ≤ ((dim (x.shape.drop 2) i + dim strides i - 1) / dim strides i - 1) * dim strides i + dim (dkernel w dil) i)
    (s : Tensor α) (hs : Spec.conv A mode dil strides [] x w bias = some s) :
    ∃ m, convOp A { autoPad := mode, dilations := dil, strides := strides, pads := [] } x w bias = .ok m ∧
      Equiv m s := by
  have hmN : mode ≠ "NOTSET" := by rcases hm with h | h <;> subst h <;> decide
  have hwl := spec_conv_some_wlen A mode dil strides [] x w bias s hs
  have hks := kshape_eq_dkernel A.zero w dil (by omega) hpw hdp
  have hdkl : (dkernel w dil).length = (x.shape.drop 2).length := by
    simp only [dkernel, List.length_zipWith, List.length_drop]; omega
  have hse : strides.isEmpty = false := isEmpty_false_of_length strides _ hsl (by omega)
  have hauto := Conv.autopad_eq_spec_partial mode hm (x.shape.drop 2) strides (dkernel w dil)
    (by simpa using hsl) hdkl hsp (by simpa using hneed)
    (fun d hd => hpx d (List.mem_of_mem_drop hd))
  rw [spec_conv_autopad_eq_explicit A x w bias mode dil strides hrank hdl hsl] at hs
  have hpl := convPads_length mode (x.shape.drop 2) strides (dkernel w dil)
  obtain ⟨m, hm1, hm2⟩ := Conv.conv_explicit_partial A hA x w bias dil strides _ hWb hpx hpw hrank hdl hsl
    (by rw [hpl]; simp) hdp hsp hk2 s hs
  refine ⟨m, ?_, hm2⟩
  rw [← hm1]
  apply convOp_autopad_eq_explicit A x w bias mode hmN dil strides _ hrank hdl
  · rw [hks, hse, if_neg (by simp), hauto]
  · simp [hpl]

end Gonnx.Proofs.Conv2
