import Gonnx.Graph.Effects
/-
Proofs for C02 (Run over a store of objects): closed form of `applyEff`, frame and growth of the
store, and the simulation between the id-level Run (`runS`) and the value-level Run (`runV`).
-/
namespace Gonnx.C02
open Gonnx
variable {V : Type}

/-- the value-level semantics induced by an effect-level one: an aliased result is the input's value -/
def semV (sem : Nat → List (Option V) → Res (OpEff V)) : Nat → List (Option V) → Res (List (Option V)) :=
  fun i vals => (sem i vals).map fun eff => eff.outs.map fun o => match o with
    | .fresh v => some v
    | .alias k => vals.getD k none
    | .nil => none

/-- Run as a function of values only (the node loop and output collection of C01's model) -/
def runV (sem : Nat → List (Option V) → Res (OpEff V)) (nodes : List GNode) (outputs : List String)
    (pvals ivals : List (String × V)) : Res (List (String × V)) :=
  let env0 : Env V := (ivals.map fun (n, v) => (n, some v)).reverse ++ (pvals.map fun (n, v) => (n, some v)).reverse
  match runNodes (semV sem) 0 nodes env0 with
  | .error e => .error e
  | .ok env => collectOutputs env outputs

/-- all the ids exist in the store -/
def Valid (σ : Store V) (l : List (String × ObjId)) : Prop := ∀ p ∈ l, p.2 < σ.objs.length

/-- the named objects with their current values (ids must be valid) -/
def valuesOf (σ : Store V) (l : List (String × ObjId)) : List (String × V) :=
  l.filterMap fun (n, i) => (σ.get i).map fun v => (n, v)

/-- the store before call `k` of a history -/
def storeBefore (sem : Nat → List (Option V) → Res (OpEff V)) (nodes : List GNode) (outputs : List String)
    (params : List (String × ObjId)) : Store V → List (List (String × ObjId)) → Nat → Store V
  | σ, _, 0 => σ
  | σ, [], _ => σ
  | σ, call :: rest, k+1 => storeBefore sem nodes outputs params (runS sem nodes outputs σ params call).1 rest k

end Gonnx.C02

namespace Gonnx.Proofs.Effects
open Gonnx Gonnx.C02
variable {V : Type}

/-! ### closed form of `applyEff` -/

/-- the values allocated by a result list -/
def freshVals : List (OutRef V) → List V
  | [] => []
  | .fresh v :: r => v :: freshVals r
  | .alias _ :: r => freshVals r
  | .nil :: r => freshVals r

/-- the result ids when allocation starts at `n` -/
def outIdsFrom (inIds : List (Option ObjId)) : Nat → List (OutRef V) → List (Option ObjId)
  | _, [] => []
  | n, .fresh _ :: r => some n :: outIdsFrom inIds (n+1) r
  | n, .alias k :: r => inIds.getD k none :: outIdsFrom inIds n r
  | n, .nil :: r => none :: outIdsFrom inIds n r

def writeStep (inIds : List (Option ObjId)) (s : Store V) (w : Nat × V) : Store V :=
  match inIds.getD w.1 none with
  | some id => s.write id w.2
  | none => s

def outStep (inIds : List (Option ObjId)) (acc : Store V × List (Option ObjId)) (o : OutRef V) :
    Store V × List (Option ObjId) :=
  match o with
  | .fresh v => (⟨acc.1.objs ++ [v]⟩, acc.2 ++ [some acc.1.objs.length])
  | .alias k => (acc.1, acc.2 ++ [inIds.getD k none])
  | .nil => (acc.1, acc.2 ++ [none])

theorem applyEff_fold (σ : Store V) (inIds : List (Option ObjId)) (eff : OpEff V) :
    applyEff σ inIds eff = eff.outs.foldl (outStep inIds) (eff.writes.foldl (writeStep inIds) σ, []) := rfl

theorem outs_fold (inIds : List (Option ObjId)) : ∀ (outs : List (OutRef V)) (s : Store V) (l : List (Option ObjId)),
    outs.foldl (outStep inIds) (s, l)
    = (⟨s.objs ++ freshVals outs⟩, l ++ outIdsFrom inIds s.objs.length outs)
  | [], s, l => by simp [freshVals, outIdsFrom]
  | .fresh v :: r, s, l => by
    rw [List.foldl_cons, outStep, outs_fold inIds r]
    simp [freshVals, outIdsFrom]
  | .alias k :: r, s, l => by
    rw [List.foldl_cons, outStep, outs_fold inIds r]
    simp [freshVals, outIdsFrom]
  | .nil :: r, s, l => by
    rw [List.foldl_cons, outStep, outs_fold inIds r]
    simp [freshVals, outIdsFrom]

theorem applyEff_eq (σ : Store V) (inIds : List (Option ObjId)) (eff : OpEff V) :
    applyEff σ inIds eff =
      (⟨(eff.writes.foldl (writeStep inIds) σ).objs ++ freshVals eff.outs⟩,
       outIdsFrom inIds (eff.writes.foldl (writeStep inIds) σ).objs.length eff.outs) := by
  rw [applyEff_fold, outs_fold, List.nil_append]

theorem writes_fold_length (inIds : List (Option ObjId)) : ∀ (ws : List (Nat × V)) (s : Store V),
    (ws.foldl (writeStep inIds) s).objs.length = s.objs.length
  | [], s => rfl
  | w :: r, s => by
    rw [List.foldl_cons, writes_fold_length inIds r]
    unfold writeStep
    split <;> simp [Store.write]

theorem outIdsFrom_length (inIds : List (Option ObjId)) : ∀ (outs : List (OutRef V)) (n : Nat),
    (outIdsFrom inIds n outs).length = outs.length
  | [], n => rfl
  | .fresh v :: r, n => by simp [outIdsFrom, outIdsFrom_length inIds r]
  | .alias k :: r, n => by simp [outIdsFrom, outIdsFrom_length inIds r]
  | .nil :: r, n => by simp [outIdsFrom, outIdsFrom_length inIds r]

/-! ### the node loop -/

theorem runNodesS_cons (sem : Nat → List (Option V) → Res (OpEff V)) (i : Nat) (n : GNode) (rest : List GNode)
    (σ : Store V) (env : EnvS) :
    runNodesS sem i (n :: rest) σ env =
      match gatherIds env n.ins with
      | .error e => (σ, .error e)
      | .ok ids =>
        match sem i (ids.map fun o => o.bind σ.get) with
        | .error e => (σ, .error e)
        | .ok eff =>
          if n.outs.length ≠ (applyEff σ ids eff).2.length then ((applyEff σ ids eff).1, .error .model)
          else runNodesS sem (i+1) rest (applyEff σ ids eff).1 ((n.outs.zip (applyEff σ ids eff).2).reverse ++ env) := by
  rw [runNodesS]
  cases gatherIds env n.ins with
  | error e => rfl
  | ok ids =>
    simp only []
    cases sem i (ids.map fun o => o.bind σ.get) with
    | error e => rfl
    | ok eff => rfl

/-- the store only grows (no purity assumption) -/
theorem runNodesS_grows (sem : Nat → List (Option V) → Res (OpEff V)) :
    ∀ (nodes : List GNode) (i : Nat) (σ : Store V) (env : EnvS),
      σ.objs.length ≤ (runNodesS sem i nodes σ env).1.objs.length
  | [], i, σ, env => by simp [runNodesS]
  | n :: rest, i, σ, env => by
    rw [runNodesS_cons]
    cases hg : gatherIds env n.ins with
    | error e => simp
    | ok ids =>
      simp only []
      cases hs : sem i (ids.map fun o => o.bind σ.get) with
      | error e => simp
      | ok eff =>
        simp only []
        have h1 : σ.objs.length ≤ (applyEff σ ids eff).1.objs.length := by
          rw [applyEff_eq]; simp [writes_fold_length]
        split
        · exact h1
        · exact Nat.le_trans h1 (runNodesS_grows sem rest (i+1) _ _)

/-- under `HeaderPure` the store is only extended -/
theorem runNodesS_prefix (sem : Nat → List (Option V) → Res (OpEff V)) (hp : HeaderPure sem) :
    ∀ (nodes : List GNode) (i : Nat) (σ : Store V) (env : EnvS),
      ∃ ext, (runNodesS sem i nodes σ env).1.objs = σ.objs ++ ext
  | [], i, σ, env => ⟨[], by simp [runNodesS]⟩
  | n :: rest, i, σ, env => by
    rw [runNodesS_cons]
    cases hg : gatherIds env n.ins with
    | error e => exact ⟨[], by simp⟩
    | ok ids =>
      simp only []
      cases hs : sem i (ids.map fun o => o.bind σ.get) with
      | error e => exact ⟨[], by simp⟩
      | ok eff =>
        simp only []
        have h1 : (applyEff σ ids eff).1.objs = σ.objs ++ freshVals eff.outs := by
          rw [applyEff_eq, hp _ _ _ hs]; rfl
        split
        · exact ⟨_, h1⟩
        · obtain ⟨ext, h⟩ := runNodesS_prefix sem hp rest (i+1) (applyEff σ ids eff).1
            ((n.outs.zip (applyEff σ ids eff).2).reverse ++ env)
          exact ⟨freshVals eff.outs ++ ext, by rw [h, h1, List.append_assoc]⟩

theorem runS_fst (sem : Nat → List (Option V) → Res (OpEff V)) (nodes : List GNode) (outputs : List String)
    (σ : Store V) (params ins : List (String × ObjId)) :
    (runS sem nodes outputs σ params ins).1 =
      (runNodesS sem 0 nodes σ ((ins.map fun (n, i) => (n, some i)).reverse ++
        (params.map fun (n, i) => (n, some i)).reverse)).1 := by
  unfold runS
  simp only []
  split
  · next h => rw [h]
  · next h =>
    rw [h]
    split <;> rfl

theorem runS_prefix (sem : Nat → List (Option V) → Res (OpEff V)) (hp : HeaderPure sem)
    (nodes : List GNode) (outputs : List String) (σ : Store V) (params ins : List (String × ObjId)) :
    ∃ ext, (runS sem nodes outputs σ params ins).1.objs = σ.objs ++ ext := by
  rw [runS_fst]; exact runNodesS_prefix sem hp _ _ _ _

theorem runS_grows (sem : Nat → List (Option V) → Res (OpEff V))
    (nodes : List GNode) (outputs : List String) (σ : Store V) (params ins : List (String × ObjId)) :
    σ.objs.length ≤ (runS sem nodes outputs σ params ins).1.objs.length := by
  rw [runS_fst]; exact runNodesS_grows sem _ _ _ _

theorem get_of_prefix (σ σ' : Store V) (ext : List V) (h : σ'.objs = σ.objs ++ ext) (id : ObjId)
    (hid : id < σ.objs.length) : σ'.get id = σ.get id := by
  unfold Store.get
  rw [h, List.getElem?_append_left hid]

theorem runS_frame (sem : Nat → List (Option V) → Res (OpEff V)) (hp : HeaderPure sem)
    (nodes : List GNode) (outputs : List String) (σ : Store V) (params ins : List (String × ObjId))
    (id : ObjId) (hid : id < σ.objs.length) :
    (runS sem nodes outputs σ params ins).1.get id = σ.get id := by
  obtain ⟨ext, h⟩ := runS_prefix sem hp nodes outputs σ params ins
  exact get_of_prefix _ _ ext h id hid

/-! ### simulation between the id-level and the value-level Run -/

/-- the value environment denoted by an id environment in a store -/
def envOf (σ : Store V) (envS : EnvS) : Env V := envS.map fun p => (p.1, p.2.bind σ.get)

/-- every id bound in the environment exists in the store -/
def ValidEnv (σ : Store V) (envS : EnvS) : Prop := ∀ n id, (n, some id) ∈ envS → id < σ.objs.length

theorem mem_of_lookup {β : Type} (n : String) : ∀ (l : List (String × β)) (v : β), List.lookup n l = some v → (n, v) ∈ l
  | [], v, h => by simp [List.lookup] at h
  | (a, b) :: r, v, h => by
    rw [List.lookup] at h
    cases hab : n == a with
    | true =>
      rw [hab] at h
      have : n = a := by simpa using hab
      simp only [Option.some.injEq] at h
      subst this; subst h
      exact List.mem_cons_self
    | false =>
      rw [hab] at h
      exact List.mem_cons_of_mem _ (mem_of_lookup n r v h)

theorem lookup_envOf (σ : Store V) (n : String) : ∀ (envS : EnvS),
    List.lookup n (envOf σ envS) = (List.lookup n envS).map (·.bind σ.get)
  | [] => rfl
  | (a, b) :: r => by
    show List.lookup n ((a, b.bind σ.get) :: envOf σ r) = _
    rw [List.lookup, List.lookup]
    cases n == a with
    | true => rfl
    | false => exact lookup_envOf σ n r

theorem gather_sim (σ : Store V) (envS : EnvS) : ∀ (names : List String),
    gatherInputs (envOf σ envS) names = (gatherIds envS names).map (List.map (·.bind σ.get))
  | [] => rfl
  | n :: rest => by
    rw [gatherInputs, gatherIds, gather_sim σ envS rest]
    by_cases hn : n = ""
    · simp only [hn, if_true]
      cases gatherIds envS rest <;> rfl
    · simp only [hn, if_false, Env.find, lookup_envOf]
      cases List.lookup n envS with
      | none => rfl
      | some v => cases gatherIds envS rest <;> rfl

theorem gather_valid (σ : Store V) (envS : EnvS) (hv : ValidEnv σ envS) : ∀ (names : List String) (ids : List (Option ObjId)),
    gatherIds envS names = .ok ids → ∀ id, some id ∈ ids → id < σ.objs.length
  | [], ids, h, id, hm => by
    simp only [gatherIds, Except.ok.injEq] at h
    subst h; simp at hm
  | n :: rest, ids, h, id, hm => by
    rw [gatherIds] at h
    by_cases hn : n = ""
    · simp only [hn, if_true] at h
      cases hr : gatherIds envS rest with
      | error e => rw [hr] at h; cases h
      | ok l =>
        rw [hr] at h
        simp only [Except.map, Except.ok.injEq] at h
        subst h
        simp only [List.mem_cons] at hm
        rcases hm with hm | hm
        · cases hm
        · exact gather_valid σ envS hv rest l hr id hm
    · simp only [hn, if_false] at h
      cases hl : List.lookup n envS with
      | none => rw [hl] at h; cases h
      | some v =>
        rw [hl] at h
        simp only [] at h
        cases hr : gatherIds envS rest with
        | error e => rw [hr] at h; cases h
        | ok l =>
          rw [hr] at h
          simp only [Except.map, Except.ok.injEq] at h
          subst h
          simp only [List.mem_cons] at hm
          rcases hm with hm | hm
          · subst hm
            exact hv n id (mem_of_lookup n envS _ hl)
          · exact gather_valid σ envS hv rest l hr id hm

theorem getD_mem (inIds : List (Option ObjId)) (k : Nat) (id : ObjId) (h : inIds.getD k none = some id) :
    some id ∈ inIds := by
  rw [List.getD_eq_getElem?_getD] at h
  cases hk : inIds[k]? with
  | none => rw [hk] at h; cases h
  | some x =>
    rw [hk] at h
    simp only [Option.getD_some] at h
    subst h
    exact List.mem_of_getElem? hk

theorem getD_map_bind (ids : List (Option ObjId)) (f : ObjId → Option V) (k : Nat) :
    (ids.map fun o => o.bind f).getD k none = (ids.getD k none).bind f := by
  rw [List.getD_eq_getElem?_getD, List.getD_eq_getElem?_getD, List.getElem?_map]
  cases ids[k]? <;> rfl

/-- the values of the result objects in the extended store are the value-level results -/
theorem outIds_vals (inIds : List (Option ObjId)) (avals : Nat → Option V) :
    ∀ (outs : List (OutRef V)) (base : List V),
      (∀ id, some id ∈ inIds → id < base.length) →
      (∀ k, avals k = (inIds.getD k none).bind fun i => base[i]?) →
      (outIdsFrom inIds base.length outs).map (fun o => o.bind fun i => (base ++ freshVals outs)[i]?) =
        outs.map (fun o => match o with
          | .fresh v => some v
          | .alias k => avals k
          | .nil => none)
  | [], base, _, _ => rfl
  | .fresh v :: r, base, hv, ha => by
    have hv' : ∀ id, some id ∈ inIds → id < (base ++ [v]).length := fun id h => by
      rw [List.length_append]; exact Nat.lt_succ_of_lt (hv id h)
    have ha' : ∀ k, avals k = (inIds.getD k none).bind fun i => (base ++ [v])[i]? := fun k => by
      rw [ha k]
      cases hk : inIds.getD k none with
      | none => rfl
      | some id =>
        show base[id]? = (base ++ [v])[id]?
        rw [List.getElem?_append_left (hv id (getD_mem inIds k id hk))]
    have ih := outIds_vals inIds avals r (base ++ [v]) hv' ha'
    rw [List.length_append, List.length_singleton, List.append_assoc] at ih
    simp only [outIdsFrom, freshVals, List.map_cons, List.singleton_append] at ih ⊢
    rw [ih]
    simp
  | .alias k :: r, base, hv, ha => by
    have ih := outIds_vals inIds avals r base hv ha
    simp only [outIdsFrom, freshVals, List.map_cons]
    rw [ih, ha k]
    congr 1
    cases hk : inIds.getD k none with
    | none => rfl
    | some id =>
      show (base ++ freshVals r)[id]? = base[id]?
      rw [List.getElem?_append_left (hv id (getD_mem inIds k id hk))]
  | .nil :: r, base, hv, ha => by
    have ih := outIds_vals inIds avals r base hv ha
    simp only [outIdsFrom, freshVals, List.map_cons]
    rw [ih]
    rfl

theorem outIds_valid (inIds : List (Option ObjId)) : ∀ (outs : List (OutRef V)) (n : Nat),
    (∀ id : Nat, some id ∈ inIds → id < n) →
    ∀ id : Nat, some id ∈ outIdsFrom inIds n outs → id < n + (freshVals outs).length
  | [], n, _, id, hm => by simp [outIdsFrom] at hm
  | .fresh v :: r, n, hv, id, hm => by
    simp only [outIdsFrom, List.mem_cons, Option.some.injEq] at hm
    simp only [freshVals, List.length_cons]
    rcases hm with hm | hm
    · omega
    · have := outIds_valid inIds r (n+1) (fun id h => Nat.lt_succ_of_lt (hv id h)) id hm
      omega
  | .alias k :: r, n, hv, id, hm => by
    simp only [outIdsFrom, List.mem_cons] at hm
    simp only [freshVals]
    rcases hm with hm | hm
    · have := hv id (getD_mem inIds k id hm.symm)
      omega
    · exact outIds_valid inIds r n hv id hm
  | .nil :: r, n, hv, id, hm => by
    simp only [outIdsFrom, List.mem_cons] at hm
    simp only [freshVals]
    rcases hm with hm | hm
    · cases hm
    · exact outIds_valid inIds r n hv id hm

theorem envOf_append (σ : Store V) (a b : EnvS) : envOf σ (a ++ b) = envOf σ a ++ envOf σ b := by
  simp [envOf]

theorem envOf_reverse (σ : Store V) (a : EnvS) : envOf σ a.reverse = (envOf σ a).reverse := by
  simp [envOf]

theorem envOf_zip (σ : Store V) : ∀ (names : List String) (ids : List (Option ObjId)),
    envOf σ (names.zip ids) = names.zip (ids.map (·.bind σ.get))
  | [], _ => rfl
  | _ :: _, [] => rfl
  | a :: as, b :: bs => by
    show (a, b.bind σ.get) :: envOf σ (as.zip bs) = _
    rw [envOf_zip σ as bs]; rfl

theorem envOf_ext (σ σ' : Store V) (ext : List V) (h : σ'.objs = σ.objs ++ ext) (envS : EnvS)
    (hv : ValidEnv σ envS) : envOf σ' envS = envOf σ envS := by
  unfold envOf
  apply List.map_congr_left
  intro p hp
  obtain ⟨n, o⟩ := p
  cases o with
  | none => rfl
  | some id =>
    show (n, σ'.get id) = (n, σ.get id)
    rw [get_of_prefix σ σ' ext h id (hv n id hp)]

theorem mem_zip_snd {α β : Type} : ∀ (as : List α) (bs : List β) (a : α) (b : β), (a, b) ∈ as.zip bs → b ∈ bs
  | [], _, _, _, h => by simp at h
  | _ :: _, [], _, _, h => by simp at h
  | x :: xs, y :: ys, a, b, h => by
    simp only [List.zip_cons_cons, List.mem_cons, Prod.mk.injEq] at h
    rcases h with h | h
    · rw [h.2]; exact List.mem_cons_self
    · exact List.mem_cons_of_mem _ (mem_zip_snd xs ys a b h)

/-- the node loops agree, and validity of the environment is preserved -/
theorem runNodes_sim (sem : Nat → List (Option V) → Res (OpEff V)) (hp : HeaderPure sem) :
    ∀ (nodes : List GNode) (i : Nat) (σ : Store V) (envS : EnvS), ValidEnv σ envS →
      (runNodesS sem i nodes σ envS).2.map (envOf (runNodesS sem i nodes σ envS).1) =
          runNodes (semV sem) i nodes (envOf σ envS) ∧
        ∀ e, (runNodesS sem i nodes σ envS).2 = .ok e → ValidEnv (runNodesS sem i nodes σ envS).1 e
  | [], i, σ, envS, hv => by
    simp only [runNodesS, runNodes]
    refine ⟨rfl, ?_⟩
    intro e he
    simp only [Except.ok.injEq] at he
    subst he; exact hv
  | n :: rest, i, σ, envS, hv => by
    rw [runNodesS_cons, runNodes, gather_sim]
    cases hg : gatherIds envS n.ins with
    | error e => exact ⟨rfl, fun e h => by cases h⟩
    | ok ids =>
      simp only [Except.map]
      have hsv : semV sem i (ids.map fun o => o.bind σ.get) =
          (sem i (ids.map fun o => o.bind σ.get)).map fun eff => eff.outs.map fun o => match o with
            | .fresh v => some v
            | .alias k => (ids.map fun o => o.bind σ.get).getD k none
            | .nil => none := rfl
      rw [hsv]
      cases hs : sem i (ids.map fun o => o.bind σ.get) with
      | error e => exact ⟨rfl, fun e h => by cases h⟩
      | ok eff =>
        simp only [Except.map]
        have hids := gather_valid σ envS hv n.ins ids hg
        have hae : applyEff σ ids eff =
            (⟨σ.objs ++ freshVals eff.outs⟩, outIdsFrom ids σ.objs.length eff.outs) := by
          rw [applyEff_eq, hp _ _ _ hs]; rfl
        rw [hae]
        simp only [bindOutputs, outIdsFrom_length, List.length_map]
        by_cases hlen : n.outs.length = eff.outs.length
        · simp only [hlen, ne_eq, not_true_eq_false, if_false]
          have hvals := outIds_vals ids (fun k => (ids.map fun o => o.bind σ.get).getD k none) eff.outs σ.objs hids
            (fun k => getD_map_bind ids σ.get k)
          have henv : envOf ⟨σ.objs ++ freshVals eff.outs⟩
              ((n.outs.zip (outIdsFrom ids σ.objs.length eff.outs)).reverse ++ envS) =
              (n.outs.zip (eff.outs.map fun o => match o with
                | .fresh v => some v
                | .alias k => (ids.map fun o => o.bind σ.get).getD k none
                | .nil => none)).reverse ++ envOf σ envS := by
            rw [envOf_append, envOf_reverse, envOf_zip, envOf_ext σ _ (freshVals eff.outs) rfl envS hv]
            rw [← hvals]
            rfl
          have hv' : ValidEnv ⟨σ.objs ++ freshVals eff.outs⟩
              ((n.outs.zip (outIdsFrom ids σ.objs.length eff.outs)).reverse ++ envS) := by
            intro m id hm
            rw [List.mem_append, List.mem_reverse] at hm
            show id < (σ.objs ++ freshVals eff.outs).length
            rw [List.length_append]
            rcases hm with hm | hm
            · exact outIds_valid ids eff.outs σ.objs.length hids id (mem_zip_snd _ _ _ _ hm)
            · exact Nat.lt_of_lt_of_le (hv m id hm) (Nat.le_add_right _ _)
          have ih := runNodes_sim sem hp rest (i+1) ⟨σ.objs ++ freshVals eff.outs⟩ _ hv'
          rw [henv] at ih
          exact ih
        · simp only [hlen, ne_eq, not_false_eq_true, if_true]
          exact ⟨trivial, fun e h => by cases h⟩

/-- the initial environments correspond -/
theorem valuesOf_env (σ : Store V) : ∀ (l : List (String × ObjId)), Valid σ l →
    (valuesOf σ l).map (fun (n, v) => (n, some v)) = envOf σ (l.map fun (n, i) => (n, some i))
  | [], _ => rfl
  | (n, i) :: r, hv => by
    have hi : i < σ.objs.length := hv (n, i) List.mem_cons_self
    have hr : Valid σ r := fun p hp => hv p (List.mem_cons_of_mem _ hp)
    have ih := valuesOf_env σ r hr
    have hget : σ.get i = some σ.objs[i] := by
      unfold Store.get; exact List.getElem?_eq_getElem hi
    unfold valuesOf at ih ⊢
    simp only [List.filterMap_cons, hget, Option.map_some, List.map_cons]
    rw [ih]
    show _ = (n, (some i).bind σ.get) :: _
    simp only [Option.bind_some, hget]
    rfl

theorem env0_sim (σ : Store V) (params ins : List (String × ObjId)) (hvp : Valid σ params) (hvi : Valid σ ins) :
    ((valuesOf σ ins).map fun (n, v) => (n, some v)).reverse ++ ((valuesOf σ params).map fun (n, v) => (n, some v)).reverse =
      envOf σ ((ins.map fun (n, i) => (n, some i)).reverse ++ (params.map fun (n, i) => (n, some i)).reverse) := by
  rw [envOf_append, envOf_reverse, envOf_reverse, valuesOf_env σ ins hvi, valuesOf_env σ params hvp]

theorem env0_valid (σ : Store V) (params ins : List (String × ObjId)) (hvp : Valid σ params) (hvi : Valid σ ins) :
    ValidEnv σ ((ins.map fun (n, i) => (n, some i)).reverse ++ (params.map fun (n, i) => (n, some i)).reverse) := by
  intro n id hm
  simp only [List.mem_append, List.mem_reverse, List.mem_map, Prod.mk.injEq, Option.some.injEq] at hm
  rcases hm with ⟨p, hp, _, rfl⟩ | ⟨p, hp, _, rfl⟩
  · exact hvi p hp
  · exact hvp p hp

/-- output collection agrees -/
theorem collect_sim (σ : Store V) (envS : EnvS) (hv : ValidEnv σ envS) : ∀ (outputs : List String),
    (match outputs.mapM (fun o => match List.lookup o envS with
        | some (some id) => some (o, id)
        | _ => none) with
      | some l => (Except.ok (valuesOf σ l) : Res (List (String × V)))
      | none => .error .model) = collectOutputs (envOf σ envS) outputs
  | [] => by simp [collectOutputs, valuesOf]
  | o :: rest => by
    have ih := collect_sim σ envS hv rest
    rw [collectOutputs, Env.find, lookup_envOf, List.mapM_cons]
    cases hl : List.lookup o envS with
    | none => rfl
    | some x =>
      cases x with
      | none => rfl
      | some id =>
        have hi : id < σ.objs.length := hv o id (mem_of_lookup o envS _ hl)
        have hget : σ.get id = some σ.objs[id] := by
          unfold Store.get; exact List.getElem?_eq_getElem hi
        simp only [Option.map_some, Option.bind_some, hget]
        rw [← ih]
        cases rest.mapM (fun o => match List.lookup o envS with
          | some (some id) => some (o, id)
          | _ => none) with
        | none => rfl
        | some l =>
          show Except.ok (valuesOf σ ((o, id) :: l)) = Except.ok ((o, σ.objs[id]) :: valuesOf σ l)
          simp only [valuesOf, List.filterMap_cons, hget, Option.map_some]

/-- **A Run is a function of values** -/
theorem runS_values (sem : Nat → List (Option V) → Res (OpEff V)) (hp : HeaderPure sem)
    (nodes : List GNode) (outputs : List String) (σ : Store V) (params ins : List (String × ObjId))
    (hvp : Valid σ params) (hvi : Valid σ ins) :
    (runS sem nodes outputs σ params ins).2.map (valuesOf (runS sem nodes outputs σ params ins).1) =
      runV sem nodes outputs (valuesOf σ params) (valuesOf σ ins) := by
  have hsim := runNodes_sim sem hp nodes 0 σ _ (env0_valid σ params ins hvp hvi)
  unfold runS runV
  simp only []
  rw [env0_sim σ params ins hvp hvi, ← hsim.1]
  generalize runNodesS sem 0 nodes σ ((ins.map fun (n, i) => (n, some i)).reverse ++
    (params.map fun (n, i) => (n, some i)).reverse) = res at hsim ⊢
  obtain ⟨σ', r⟩ := res
  cases r with
  | error e => rfl
  | ok e =>
    have hve : ValidEnv σ' e := hsim.2 e rfl
    simp only [Except.map]
    rw [← collect_sim σ' e hve outputs]
    cases outputs.mapM (fun o => match List.lookup o e with
        | some (some id) => some (o, id)
        | _ => none) <;> rfl

/-! ### histories -/

theorem valid_mono (σ σ' : Store V) (h : σ.objs.length ≤ σ'.objs.length) (l : List (String × ObjId))
    (hv : Valid σ l) : Valid σ' l := fun p hp => Nat.lt_of_lt_of_le (hv p hp) h

theorem valuesOf_congr (σ σ' : Store V) : ∀ (l : List (String × ObjId)), Valid σ l →
    (∀ id, id < σ.objs.length → σ'.get id = σ.get id) → valuesOf σ' l = valuesOf σ l
  | [], _, _ => rfl
  | (n, i) :: r, hv, h => by
    have ih := valuesOf_congr σ σ' r (fun q hq => hv q (List.mem_cons_of_mem _ hq)) h
    have hi : σ'.get i = σ.get i := h i (hv (n, i) List.mem_cons_self)
    unfold valuesOf at ih ⊢
    rw [List.filterMap_cons, List.filterMap_cons, ih]
    simp only [hi]

/-- the parameters keep their values (and stay valid) along any history -/
theorem storeBefore_params (sem : Nat → List (Option V) → Res (OpEff V)) (hp : HeaderPure sem)
    (nodes : List GNode) (outputs : List String) (params : List (String × ObjId)) :
    ∀ (calls : List (List (String × ObjId))) (k : Nat) (σ : Store V), Valid σ params →
      valuesOf (storeBefore sem nodes outputs params σ calls k) params = valuesOf σ params ∧
      Valid (storeBefore sem nodes outputs params σ calls k) params
  | [], 0, σ, hv => ⟨rfl, hv⟩
  | [], _+1, σ, hv => ⟨rfl, hv⟩
  | _ :: _, 0, σ, hv => ⟨rfl, hv⟩
  | call :: rest, k+1, σ, hv => by
    show valuesOf (storeBefore sem nodes outputs params (runS sem nodes outputs σ params call).1 rest k) params = _ ∧
      Valid (storeBefore sem nodes outputs params (runS sem nodes outputs σ params call).1 rest k) params
    have hv1 : Valid (runS sem nodes outputs σ params call).1 params :=
      valid_mono σ _ (runS_grows sem nodes outputs σ params call) params hv
    have h1 : valuesOf (runS sem nodes outputs σ params call).1 params = valuesOf σ params :=
      valuesOf_congr σ _ params hv (fun id hid => runS_frame sem hp nodes outputs σ params call id hid)
    obtain ⟨ih1, ih2⟩ := storeBefore_params sem hp nodes outputs params rest k _ hv1
    exact ⟨ih1.trans h1, ih2⟩

theorem history (sem : Nat → List (Option V) → Res (OpEff V)) (hp : HeaderPure sem)
    (nodes : List GNode) (outputs : List String) (σ0 : Store V) (params : List (String × ObjId))
    (calls : List (List (String × ObjId))) (hvp : Valid σ0 params) (k : Nat) (call : List (String × ObjId))
    (hvk : Valid (storeBefore sem nodes outputs params σ0 calls k) call) :
    valuesOf (storeBefore sem nodes outputs params σ0 calls k) params = valuesOf σ0 params ∧
    (runS sem nodes outputs (storeBefore sem nodes outputs params σ0 calls k) params call).2.map
        (valuesOf (runS sem nodes outputs (storeBefore sem nodes outputs params σ0 calls k) params call).1) =
      runV sem nodes outputs (valuesOf σ0 params) (valuesOf (storeBefore sem nodes outputs params σ0 calls k) call) := by
  obtain ⟨h1, h2⟩ := storeBefore_params sem hp nodes outputs params calls k σ0 hvp
  refine ⟨h1, ?_⟩
  rw [← h1]
  exact runS_values sem hp nodes outputs _ params call h2 hvk

end Gonnx.Proofs.Effects
