import Gonnx.Ops.Reduce
import Gonnx.Spec.Reduce
import Gonnx.Proofs.Binary
/-
Helper lemmas for C09: ArgMax, ReduceMax/Min, Softmax/LogSoftmax.
-/
namespace Gonnx.C09
variable {α : Type}

/-- a total preorder given by a Boolean `le` -/
structure TotalLe (le : α → α → Bool) : Prop where
  total : ∀ a b, le a b = true ∨ le b a = true
  trans : ∀ a b c, le a b = true → le b c = true → le a c = true

end Gonnx.C09

namespace Gonnx.Proofs.Reduce
open Gonnx Gonnx.C09
variable {α : Type} [Inhabited α]

/-! ### axis normalisation -/

theorem normAxis_some {r : Nat} {a : Int} {ax : Nat} (h : Spec.normAxis r a = some ax) :
    -(r : Int) ≤ a ∧ a < r ∧ (if a < 0 then a + r else a) = (ax : Int) ∧ ax < r := by
  unfold Spec.normAxis at h
  split at h
  · rename_i hr
    cases h
    split <;> omega
  · cases h

theorem normAxis_none {r : Nat} {a : Int} (h : Spec.normAxis r a = none) :
    a < -(r : Int) ∨ a ≥ r := by
  unfold Spec.normAxis at h
  split at h
  · cases h
  · omega

/-! ### Softmax -/

theorem softmax_axis_error (f : α → List α → List α) (t : Tensor α) (axis : Int)
    (h : Spec.normAxis t.shape.length axis = none) : softmaxOp f t axis = .error .axis := by
  have := normAxis_none h
  unfold softmaxOp
  simp only
  rw [if_pos this]

theorem softmax_lane (f : α → List α → List α) (t : Tensor α) (axis : Int) (ax : Nat)
    (hax : Spec.normAxis t.shape.length axis = some ax) :
    ∃ out, softmaxOp f t axis = .ok out ∧ out.shape = t.shape ∧ out.WF ∧
      ∀ idx, InRange idx t.shape →
        out.get idx =
          (f (if ax + 1 = t.shape.length then t.data.headD default
              else t.get (idx.set ax 0))
             ((List.range (dim t.shape ax)).map fun k => t.get (idx.set ax k))).getD (idx.getD ax 0) default := by
  obtain ⟨h1, h2, h3, h4⟩ := normAxis_some hax
  have hax' : (if axis < 0 then axis + (t.shape.length : Int) else axis).toNat = ax := by
    rw [h3]; simp
  refine ⟨gLanes f t ax, ?_, rfl, ofFn_WF _ _, ?_⟩
  · unfold softmaxOp
    simp only
    rw [if_neg (by omega), hax']
  · intro idx hidx
    unfold gLanes
    simp only
    rw [get_ofFn _ _ _ hidx]
    have hpos : 0 < dim t.shape ax := by
      have := ((InRange_iff idx t.shape).1 hidx).2 ax h4
      omega
    congr 2
    by_cases hl : ax + 1 = t.shape.length
    · simp [hl]
    · simp only [hl, if_false]
      obtain ⟨n, hn⟩ : ∃ n, dim t.shape ax = n + 1 := ⟨dim t.shape ax - 1, by omega⟩
      rw [hn, List.range_succ_eq_map]
      simp

/-! ### ArgMax: the easy facts -/

theorem gArgmax_ok (lt : α → α → Bool) (t : Tensor α) (ax : Nat) (hax : ax < t.shape.length) :
    gArgmax lt t (ax : Int) = .ok (ofFn (t.shape.eraseIdx ax) fun idx =>
      (argmaxList lt ((List.range (dim t.shape ax)).map fun k => t.get (laneIdx ax idx k)) : Nat)) := by
  unfold gArgmax
  rw [if_neg (by omega), if_neg (by omega)]
  simp

theorem gArgmax_shape (lt : α → α → Bool) (t : Tensor α) (a : Int) (r : Tensor Int)
    (h : gArgmax lt t a = .ok r) : r.shape = t.shape.eraseIdx a.toNat := by
  unfold gArgmax at h
  split at h
  · cases h
  · split at h
    · cases h
    · cases h; rfl

theorem argmax_rank1_nokeep (lt : α → α → Bool) (t : Tensor α) (n : Nat) (h : t.shape = [n]) :
    argmaxOp lt t 0 false = .error .other := by
  have h0 := gArgmax_ok lt t 0 (by rw [h]; simp)
  unfold argmaxOp
  simp only [Int.lt_irrefl, if_false]
  simp only [Int.natCast_zero] at h0
  rw [h0]
  simp [h]

/-- since the `fix:` commit ArgMax never writes to its input, with or without keepdims -/
theorem argmax_pure (lt : α → α → Bool) (t : Tensor α) (axis : Int) (keep : Bool) (m : Tensor Int) (mu : Option (List Nat))
    (h : argmaxOp lt t axis keep = .ok (m, mu)) : mu = none := by
  unfold argmaxOp at h
  simp only at h
  split at h
  · cases h
  · cases keep with
    | true => simp only [if_true] at h; cases h; rfl
    | false =>
      simp only [Bool.false_eq_true, if_false] at h
      split at h
      · cases h
      · cases h; rfl

theorem argmax_nokeep_pure (lt : α → α → Bool) (t : Tensor α) (axis : Int) (m : Tensor Int) (mu : Option (List Nat))
    (h : argmaxOp lt t axis false = .ok (m, mu)) : mu = none := by
  unfold argmaxOp at h
  simp only at h
  split at h
  · cases h
  · simp only [Bool.false_eq_true, if_false] at h
    split at h
    · cases h
    · cases h; rfl

/-! ### ArgMax: `argmaxList` is the first position of a maximal element -/

/-- `m` is the first maximal position among `e 0 … e (n-1)` -/
def FirstMax (le : α → α → Bool) (e : Nat → α) (n m : Nat) : Prop :=
  m < n ∧ (∀ j, j < n → le (e j) (e m) = true) ∧ (∀ j, j < m → le (e m) (e j) = false)

omit [Inhabited α] in
theorem go_firstMax (le : α → α → Bool) (hle : TotalLe le) (e : Nat → α) (k : Nat) :
    ∀ bi i, FirstMax le e i bi →
      FirstMax le e (i + k) (argmaxList.go (fun a b => !le b a) (e bi) bi i ((List.range' i k).map e)) := by
  induction k with
  | zero => intro bi i h; simpa [argmaxList.go] using h
  | succ k ih =>
    intro bi i ⟨h1, h2, h3⟩
    rw [List.range'_succ, List.map_cons]
    unfold argmaxList.go
    have hrefl : le (e i) (e i) = true := by cases hle.total (e i) (e i) <;> assumption
    by_cases hc : le (e i) (e bi) = true
    · simp only [hc, Bool.not_true, Bool.false_eq_true, if_false]
      have := ih bi (i+1) ⟨by omega, ?_, h3⟩
      · rw [show i + (k + 1) = i + 1 + k by omega]; exact this
      · intro j hj
        by_cases hji : j < i
        · exact h2 j hji
        · have : j = i := by omega
          subst this; exact hc
    · have hc' : le (e i) (e bi) = false := by simpa using hc
      simp only [hc', Bool.not_false, if_true]
      have hbi : le (e bi) (e i) = true := by
        cases hle.total (e i) (e bi) with
        | inl h => rw [h] at hc'; cases hc'
        | inr h => exact h
      have := ih i (i+1) ⟨by omega, ?_, ?_⟩
      · rw [show i + (k + 1) = i + 1 + k by omega]; exact this
      · intro j hj
        by_cases hji : j < i
        · exact hle.trans _ _ _ (h2 j hji) hbi
        · have : j = i := by omega
          subst this; exact hrefl
      · intro j hj
        cases hji : le (e i) (e j) with
        | false => rfl
        | true =>
          have := hle.trans _ _ _ hji (h2 j hj)
          rw [this] at hc'; cases hc'

omit [Inhabited α] in
theorem argmaxList_firstMax (le : α → α → Bool) (hle : TotalLe le) (e : Nat → α) (n : Nat) (hn : 0 < n) :
    FirstMax le e n (argmaxList (fun a b => !le b a) ((List.range n).map e)) := by
  obtain ⟨k, rfl⟩ : ∃ k, n = k + 1 := ⟨n - 1, by omega⟩
  rw [List.range_eq_range', List.range'_succ, List.map_cons]
  unfold argmaxList
  have hrefl : le (e 0) (e 0) = true := by cases hle.total (e 0) (e 0) <;> assumption
  have := go_firstMax le hle e k 0 1 ⟨by omega, by intro j hj; have : j = 0 := by omega
                                                   subst this; exact hrefl, by intro j hj; omega⟩
  rw [show k + 1 = 1 + k by omega]
  exact this

theorem find?_range_first (p : Nat → Bool) (n m : Nat) (hm : m < n) (hp : p m = true)
    (hlt : ∀ j, j < m → p j = false) : (List.range n).find? p = some m := by
  induction n with
  | zero => omega
  | succ n ih =>
    rw [List.range_succ, List.find?_append]
    by_cases hmn : m < n
    · rw [ih hmn]; rfl
    · have : m = n := by omega
      subst this
      have : (List.range m).find? p = none := by
        rw [List.find?_eq_none]
        intro x hx
        simp only [List.mem_range] at hx
        simp [hlt x hx]
      rw [this]
      simp [hp]

omit [Inhabited α] in
/-- the model's `argmaxList` agrees with the spec's "first k such that every element is ≤ element k" -/
theorem argmaxList_eq_find (le : α → α → Bool) (hle : TotalLe le) (e : Nat → α) (n : Nat) (hn : 0 < n) :
    ((List.range n).find? fun k => (List.range n).all fun j => le (e j) (e k)).getD 0 =
      argmaxList (fun a b => !le b a) ((List.range n).map e) := by
  obtain ⟨h1, h2, h3⟩ := argmaxList_firstMax le hle e n hn
  rw [find?_range_first _ n _ h1]
  · rfl
  · simp only [List.all_eq_true, List.mem_range]
    exact h2
  · intro j hj
    cases hall : (List.range n).all fun i => le (e i) (e j) with
    | false => rfl
    | true =>
      simp only [List.all_eq_true, List.mem_range] at hall
      have := hall _ h1
      rw [h3 j hj] at this; cases this

/-! ### index lemmas: an axis of extent 1 -/

theorem prod_set_one (s : List Nat) (ax : Nat) (h : ax < s.length) :
    prod (s.set ax 1) = prod (s.eraseIdx ax) := by
  induction s generalizing ax with
  | nil => simp at h
  | cons n s ih =>
    cases ax with
    | zero => simp
    | succ ax => simp at h; simp [ih ax h]

theorem ravel_set_one (s idx : List Nat) (ax : Nat) (h : ax < s.length) (hi : InRange idx (s.set ax 1)) :
    ravel (s.set ax 1) idx = ravel (s.eraseIdx ax) (idx.eraseIdx ax) := by
  induction s generalizing ax idx with
  | nil => simp at h
  | cons n s ih =>
    cases idx with
    | nil => cases ax <;> simp [InRange] at hi
    | cons i is =>
      cases ax with
      | zero =>
        simp only [List.set_cons_zero, InRange] at hi
        have : i = 0 := by omega
        subst this
        simp [ravel]
      | succ ax =>
        simp only [List.set_cons_succ, InRange] at hi
        simp only [List.length_cons, Nat.add_lt_add_iff_right] at h
        simp only [List.set_cons_succ, List.eraseIdx_cons_succ, ravel, ih is ax h hi.2, prod_set_one s ax h]

theorem InRange_eraseIdx (s idx : List Nat) (ax : Nat) (hi : InRange idx (s.set ax 1)) :
    InRange (idx.eraseIdx ax) (s.eraseIdx ax) := by
  induction s generalizing ax idx with
  | nil => cases idx <;> simp_all [InRange]
  | cons n s ih =>
    cases idx with
    | nil => cases ax <;> simp [InRange] at hi
    | cons i is =>
      cases ax with
      | zero => simp only [List.set_cons_zero, InRange] at hi; simpa using hi.2
      | succ ax =>
        simp only [List.set_cons_succ, InRange] at hi
        simp only [List.eraseIdx_cons_succ, InRange]
        exact ⟨hi.1, ih is ax hi.2⟩

theorem laneIdx_eraseIdx (idx : List Nat) (ax k : Nat) (h : ax < idx.length) :
    laneIdx ax (idx.eraseIdx ax) k = idx.set ax k := by
  induction idx generalizing ax with
  | nil => simp at h
  | cons i is ih =>
    cases ax with
    | zero => simp [laneIdx]
    | succ ax =>
      simp only [List.length_cons, Nat.add_lt_add_iff_right] at h
      have := ih ax h
      simp only [laneIdx] at this ⊢
      simp [this]

/-! ### ArgMax = spec -/

theorem argmax_partial (le : α → α → Bool) (hle : TotalLe le) (t : Tensor α) (axis : Int) (keep : Bool)
    (hpos : Pos t.shape) (ax : Nat) (hax : Spec.normAxis t.shape.length axis = some ax)
    (hcorner : ¬ (keep = false ∧ t.shape.length = 1))
    (s : Tensor Int) (hs : Spec.argmax le t axis keep = some s) :
    ∃ m mu, argmaxOp (fun a b => !le b a) t axis keep = .ok (m, mu) ∧ Equiv m s := by
  obtain ⟨h1, h2, h3, h4⟩ := normAxis_some hax
  have hn : 0 < dim t.shape ax := Pos_dim hpos h4
  have h0 := gArgmax_ok (fun a b => !le b a) t ax h4
  unfold Spec.argmax at hs
  rw [hax] at hs
  simp only [Option.some.injEq] at hs
  subst hs
  have ha : (if axis < 0 then (t.shape.length : Int) + axis else axis) = (ax : Int) := by
    rw [← h3]; split <;> omega
  unfold argmaxOp
  simp only [ha, h0, Int.toNat_natCast]
  cases keep with
  | true =>
    simp only [if_true]
    refine ⟨_, _, rfl, rfl, ?_, ofFn_WF _ _, ?_⟩
    · simp only [Tensor.WF, prod_set_one _ _ h4]
      exact ofFn_WF _ _
    · intro idx hidx
      simp only at hidx
      rw [get_ofFn _ _ _ hidx]
      have hidx' := InRange_eraseIdx _ _ _ hidx
      have hlen : ax < idx.length := by
        rw [InRange_length hidx]; simpa using h4
      have : ∀ (d : List Int), (Tensor.get ⟨t.shape.set ax 1, d⟩ idx : Int) =
          Tensor.get ⟨t.shape.eraseIdx ax, d⟩ (idx.eraseIdx ax) := by
        intro d
        simp only [Tensor.get, ravel_set_one _ _ _ h4 hidx]
      show Tensor.get ⟨t.shape.set ax 1, _⟩ idx = _
      rw [this]
      have := get_ofFn (t.shape.eraseIdx ax) (fun idx =>
        ((argmaxList (fun a b => !le b a) ((List.range (dim t.shape ax)).map fun k => t.get (laneIdx ax idx k)) : Nat) : Int))
        _ hidx'
      refine Eq.trans this ?_
      rw [argmaxList_eq_find le hle _ _ hn]
      simp only [laneIdx_eraseIdx _ _ _ hlen]
  | false =>
    have hne : t.shape.eraseIdx ax ≠ [] := by
      intro hE
      have := congrArg List.length hE
      rw [List.length_eraseIdx] at this
      simp only [h4, if_true, List.length_nil] at this
      apply hcorner
      exact ⟨rfl, by omega⟩
    simp only [Bool.false_eq_true, if_false, ofFn_shape, hne]
    refine ⟨_, _, rfl, rfl, ofFn_WF _ _, ofFn_WF _ _, ?_⟩
    intro idx hidx
    simp only [ofFn_shape] at hidx
    rw [get_ofFn _ _ _ hidx, get_ofFn _ _ _ hidx]
    rw [argmaxList_eq_find le hle _ _ hn]
    rfl

/-! ### Reduce: masks over positions -/

/-- entries of `l` at the positions (counted from `k`) where `p` is false -/
def keepF {β : Type} (p : Nat → Bool) (k : Nat) (l : List β) : List β :=
  ((l.zipIdx k).filter fun x => !p x.2).map (·.1)

/-- `l` with the entries at the positions (counted from `k`) where `p` holds replaced by `c` -/
def maskWith (c : Nat) (p : Nat → Bool) (k : Nat) (l : List Nat) : List Nat :=
  (l.zipIdx k).map fun x => if p x.2 then c else x.1

theorem keepF_nil {β : Type} (p : Nat → Bool) (k : Nat) : keepF p k ([] : List β) = [] := rfl

theorem keepF_cons {β : Type} (p : Nat → Bool) (k : Nat) (x : β) (l : List β) :
    keepF p k (x :: l) = if p k then keepF p (k+1) l else x :: keepF p (k+1) l := by
  unfold keepF
  rw [List.zipIdx_cons, List.filter_cons]
  cases p k <;> simp

theorem maskWith_nil (c : Nat) (p : Nat → Bool) (k : Nat) : maskWith c p k [] = [] := rfl

theorem maskWith_cons (c : Nat) (p : Nat → Bool) (k : Nat) (x : Nat) (l : List Nat) :
    maskWith c p k (x :: l) = (if p k then c else x) :: maskWith c p (k+1) l := by
  unfold maskWith
  rw [List.zipIdx_cons, List.map_cons]

theorem length_maskWith (c : Nat) (p : Nat → Bool) (k : Nat) (l : List Nat) :
    (maskWith c p k l).length = l.length := by
  simp [maskWith]

theorem prod_mask_one (p : Nat → Bool) (k : Nat) (s : List Nat) :
    prod (maskWith 1 p k s) = prod (keepF p k s) := by
  induction s generalizing k with
  | nil => rfl
  | cons n s ih =>
    rw [maskWith_cons, keepF_cons]
    cases p k <;> simp [ih]

theorem ravel_mask (p : Nat → Bool) (k : Nat) (s idx : List Nat) (h : InRange idx (maskWith 1 p k s)) :
    ravel (maskWith 1 p k s) idx = ravel (keepF p k s) (keepF p k idx) := by
  induction s generalizing k idx with
  | nil => cases idx <;> simp_all [maskWith_nil, keepF_nil, InRange, ravel]
  | cons n s ih =>
    cases idx with
    | nil => simp [maskWith_cons, InRange] at h
    | cons i is =>
      rw [maskWith_cons] at h ⊢
      rw [keepF_cons, keepF_cons]
      simp only [InRange] at h
      cases hp : p k with
      | true =>
        simp only [hp, if_true] at h ⊢
        have : i = 0 := by omega
        subst this
        simp [ravel, ih _ _ h.2]
      | false =>
        simp only [Bool.false_eq_true, if_false]
        simp only [ravel, ih _ _ h.2, prod_mask_one]

theorem InRange_keepF (p : Nat → Bool) (k : Nat) (s idx : List Nat) (h : InRange idx (maskWith 1 p k s)) :
    InRange (keepF p k idx) (keepF p k s) := by
  induction s generalizing k idx with
  | nil => cases idx <;> simp_all [maskWith_nil, keepF_nil, InRange]
  | cons n s ih =>
    cases idx with
    | nil => simp [maskWith_cons, InRange] at h
    | cons i is =>
      rw [maskWith_cons] at h
      rw [keepF_cons, keepF_cons]
      simp only [InRange] at h
      cases hp : p k with
      | true => simp only [if_true]; exact ih _ _ h.2
      | false =>
        simp only [hp, Bool.false_eq_true, if_false] at h ⊢
        exact ⟨h.1, ih _ _ h.2⟩

/-- the keepdims filter of the spec (reduced positions zeroed) selects the same sources as the
no-keepdims filter at the projected index -/
theorem maskZero_eq_iff (p : Nat → Bool) (k : Nat) (s idx src : List Nat)
    (h : InRange idx (maskWith 1 p k s)) (hs : src.length = s.length) :
    maskWith 0 p k src = idx ↔ keepF p k src = keepF p k idx := by
  induction s generalizing k idx src with
  | nil =>
    cases idx <;> cases src <;> simp_all [maskWith_nil, keepF_nil, InRange]
  | cons n s ih =>
    cases idx with
    | nil => simp [maskWith_cons, InRange] at h
    | cons i is =>
      cases src with
      | nil => simp at hs
      | cons x xs =>
        rw [maskWith_cons] at h
        rw [maskWith_cons, keepF_cons, keepF_cons]
        simp only [InRange] at h
        simp only [List.length_cons, Nat.add_right_cancel_iff] at hs
        have := ih (k+1) is xs h.2 hs
        cases hp : p k with
        | true =>
          simp only [hp, if_true] at h ⊢
          have : i = 0 := by omega
          subst this
          simp [this]
        | false =>
          simp only [Bool.false_eq_true, if_false, List.cons.injEq, this]

theorem maskWith_self (p : Nat → Bool) (k : Nat) (s : List Nat) (h : ∀ d ∈ s, d = 1) :
    maskWith 1 p k s = s := by
  induction s generalizing k with
  | nil => rfl
  | cons n s ih =>
    rw [maskWith_cons, ih _ (fun d hd => h d (List.mem_cons_of_mem _ hd))]
    have := h n (List.mem_cons_self)
    subst this
    simp

theorem prod_eq_one (s : List Nat) (h : prod s = 1) : ∀ d ∈ s, d = 1 := by
  induction s with
  | nil => simp
  | cons n s ih =>
    simp only [prod_cons] at h
    have h1 : n = 1 := Nat.eq_one_of_mul_eq_one_right h
    have h2 : prod s = 1 := Nat.eq_one_of_mul_eq_one_left h
    intro d hd
    cases hd with
    | head => exact h1
    | tail _ hd => exact ih h2 d hd

theorem getElem?_maskWith (c : Nat) (p : Nat → Bool) (k : Nat) (l : List Nat) (j : Nat) :
    (maskWith c p k l)[j]? = l[j]?.map fun x => if p (k + j) then c else x := by
  unfold maskWith
  rw [List.getElem?_map, List.getElem?_zipIdx]
  cases l[j]? <;> simp

theorem foldl_set_one (l : List Nat) (s : List Nat) :
    l.foldl (fun s a => s.set a 1) s = maskWith 1 (fun j => l.contains j) 0 s := by
  induction l generalizing s with
  | nil =>
    apply List.ext_getElem?
    intro j
    rw [getElem?_maskWith, List.foldl_nil]
    cases hs : s[j]? <;> simp
  | cons a l ih =>
    rw [List.foldl_cons, ih]
    apply List.ext_getElem?
    intro j
    rw [getElem?_maskWith, getElem?_maskWith, List.getElem?_set]
    by_cases haj : a = j
    · subst haj
      by_cases hlt : a < s.length
      · simp [hlt]
      · simp [hlt]
    · have : ¬ j = a := by omega
      simp [haj, this]

/-! ### Reduce: the positions enumerated by the model -/

theorem mem_reducePositions (shape axes : List Nat) (pos : List (Nat × Nat)) :
    pos ∈ reducePositions shape axes ↔
      pos.map Prod.fst = axes ∧ ∀ q ∈ pos, q.2 < dim shape q.1 := by
  induction axes generalizing pos with
  | nil =>
    have : reducePositions shape [] = [[]] := rfl
    rw [this]
    constructor
    · intro h; simp at h; subst h; simp
    · rintro ⟨h, _⟩; simp at h; simp [h]
  | cons a axes ih =>
    have hrp : reducePositions shape (a :: axes) =
        (List.range (dim shape a)).flatMap fun k => (reducePositions shape axes).map fun l => (a, k) :: l := rfl
    rw [hrp]
    simp only [List.mem_flatMap, List.mem_range, List.mem_map]
    constructor
    · rintro ⟨k, hk, l, hl, rfl⟩
      obtain ⟨h1, h2⟩ := (ih l).1 hl
      refine ⟨by simp [h1], ?_⟩
      intro q hq
      cases hq with
      | head => exact hk
      | tail _ hq => exact h2 q hq
    · rintro ⟨h1, h2⟩
      cases pos with
      | nil => simp at h1
      | cons q l =>
        obtain ⟨qa, qk⟩ := q
        simp only [List.map_cons, List.cons.injEq] at h1
        obtain ⟨rfl, h1⟩ := h1
        refine ⟨qk, h2 (qa, qk) (List.mem_cons_self), l, (ih l).2 ⟨h1, ?_⟩, rfl⟩
        intro q hq
        exact h2 q (List.mem_cons_of_mem _ hq)

theorem lookup_of_mem_fst (pos : List (Nat × Nat)) (j : Nat) (h : j ∈ pos.map Prod.fst) :
    ∃ k, pos.lookup j = some k ∧ (j, k) ∈ pos := by
  induction pos with
  | nil => simp at h
  | cons q pos ih =>
    obtain ⟨a, k⟩ := q
    rw [List.lookup_cons]
    by_cases hja : j = a
    · subst hja
      exact ⟨k, by simp, List.mem_cons_self⟩
    · have hb : (j == a) = false := by simpa using hja
      simp only [List.map_cons, List.mem_cons, hja, false_or] at h
      obtain ⟨k', h1, h2⟩ := ih h
      exact ⟨k', by simp [hb, h1], List.mem_cons_of_mem _ h2⟩

theorem lookup_map_self (axes : List Nat) (g : Nat → Nat) (j : Nat) (h : j ∈ axes) :
    (axes.map fun a => (a, g a)).lookup j = some (g j) := by
  induction axes with
  | nil => simp at h
  | cons a axes ih =>
    rw [List.map_cons, List.lookup_cons]
    by_cases hja : j = a
    · subst hja; simp
    · have hb : (j == a) = false := by simpa using hja
      simp only [List.mem_cons, hja, false_or] at h
      simp [hb, ih h]

/-- `fullIdx.go` rebuilds `s` from its kept entries when `pos` supplies the reduced entries of `s` -/
theorem go_rebuild (axes : List Nat) (pos : List (Nat × Nat)) (s : List Nat) (j : Nat)
    (h : ∀ i, i < s.length → axes.contains (j + i) = true → (pos.lookup (j + i)).getD 0 = s.getD i 0) :
    fullIdx.go axes pos j s.length (keepF (fun j => axes.contains j) j s) = s := by
  induction s generalizing j with
  | nil => simp [fullIdx.go]
  | cons x s ih =>
    rw [List.length_cons, fullIdx.go, keepF_cons]
    have ih' := ih (j+1) (by
      intro i hi hc
      have := h (i+1) (by simp; omega) (by rw [← Nat.add_assoc, Nat.add_right_comm]; exact hc)
      rw [← Nat.add_assoc, Nat.add_right_comm] at this
      simpa using this)
    cases hc : axes.contains j with
    | true =>
      simp only [if_true]
      have := h 0 (by simp) (by simpa using hc)
      simp only [Nat.add_zero] at this
      rw [this, ih']
      simp
    | false =>
      simp only [Bool.false_eq_true, if_false, List.headD_cons, List.tail_cons, ih']

/-- `fullIdx.go` on an in-range kept index and in-range reduced positions is in range and projects back -/
theorem go_inRange (axes : List Nat) (pos : List (Nat × Nat)) (sh : List Nat) (j : Nat) (kept : List Nat)
    (hk : InRange kept (keepF (fun j => axes.contains j) j sh))
    (h : ∀ i, i < sh.length → axes.contains (j + i) = true → (pos.lookup (j + i)).getD 0 < sh.getD i 0) :
    InRange (fullIdx.go axes pos j sh.length kept) sh ∧
      keepF (fun j => axes.contains j) j (fullIdx.go axes pos j sh.length kept) = kept := by
  induction sh generalizing j kept with
  | nil =>
    rw [keepF_nil] at hk
    cases kept with
    | nil => simp [fullIdx.go, InRange, keepF_nil]
    | cons _ _ => simp [InRange] at hk
  | cons n sh ih =>
    rw [List.length_cons, fullIdx.go]
    rw [keepF_cons] at hk
    have h' : ∀ i, i < sh.length → axes.contains (j + 1 + i) = true →
        (pos.lookup (j + 1 + i)).getD 0 < sh.getD i 0 := by
      intro i hi hc
      have := h (i+1) (by simp; omega) (by rw [← Nat.add_assoc, Nat.add_right_comm]; exact hc)
      rw [← Nat.add_assoc, Nat.add_right_comm] at this
      simpa using this
    cases hc : axes.contains j with
    | true =>
      simp only [hc, if_true] at hk ⊢
      obtain ⟨i1, i2⟩ := ih (j+1) kept hk h'
      have := h 0 (by simp) (by simpa using hc)
      simp only [Nat.add_zero, List.getD_cons_zero] at this
      rw [keepF_cons]
      simp only [hc, if_true]
      exact ⟨⟨this, i1⟩, i2⟩
    | false =>
      simp only [hc, Bool.false_eq_true, if_false] at hk ⊢
      cases kept with
      | nil => simp [InRange] at hk
      | cons k0 kept =>
        simp only [InRange] at hk
        obtain ⟨i1, i2⟩ := ih (j+1) kept hk.2 h'
        rw [keepF_cons]
        simp only [hc, Bool.false_eq_true, if_false, List.headD_cons, List.tail_cons]
        exact ⟨⟨hk.1, i1⟩, by rw [i2]⟩

/-- the model's enumeration `fullIdx … pos`, `pos ∈ reducePositions`, runs over exactly the source
indices that agree with `idx` on the kept axes -/
theorem reduce_sources (shape axes idx : List Nat) (hlt : ∀ a ∈ axes, a < shape.length)
    (hidx : InRange idx (keepF (fun j => axes.contains j) 0 shape)) (s : List Nat) :
    (∃ pos, pos ∈ reducePositions shape axes ∧ fullIdx shape.length axes idx pos = s) ↔
      (InRange s shape ∧ keepF (fun j => axes.contains j) 0 s = idx) := by
  constructor
  · rintro ⟨pos, hpos, rfl⟩
    obtain ⟨hp1, hp2⟩ := (mem_reducePositions _ _ _).1 hpos
    unfold fullIdx
    apply go_inRange axes pos shape 0 idx hidx
    intro i hi hc
    simp only [Nat.zero_add] at hc ⊢
    have hmem : i ∈ pos.map Prod.fst := by rw [hp1]; simpa using hc
    obtain ⟨k, hk1, hk2⟩ := lookup_of_mem_fst pos i hmem
    rw [hk1]
    exact hp2 _ hk2
  · rintro ⟨hs, rfl⟩
    have hlen := InRange_length hs
    refine ⟨axes.map fun a => (a, s.getD a 0), ?_, ?_⟩
    · rw [mem_reducePositions]
      refine ⟨by simp [Function.comp_def], ?_⟩
      intro q hq
      simp only [List.mem_map] at hq
      obtain ⟨a, ha, rfl⟩ := hq
      exact ((InRange_iff s shape).1 hs).2 a (hlt a ha)
    · unfold fullIdx
      rw [← hlen]
      apply go_rebuild
      intro i hi hc
      simp only [Nat.zero_add] at hc ⊢
      rw [lookup_map_self axes (fun a => s.getD a 0) i (by simpa using hc)]
      rfl

/-! ### Reduce: maxima of lists under a linear order -/

/-- `r` is a maximal element of `l` -/
def IsMax (le : α → α → Bool) (r : α) (l : List α) : Prop := r ∈ l ∧ ∀ y ∈ l, le y r = true

omit [Inhabited α] in
theorem foldl_isMax (le : α → α → Bool) (hle : TotalLe le) (f : α → α → α)
    (hf : ∀ b y, (f b y = b ∨ f b y = y) ∧ le b (f b y) = true ∧ le y (f b y) = true)
    (x : α) (xs : List α) : IsMax le (xs.foldl f x) (x :: xs) := by
  induction xs generalizing x with
  | nil =>
    refine ⟨List.mem_cons_self, ?_⟩
    intro y hy
    simp only [List.mem_singleton] at hy
    subst hy
    cases hle.total y y <;> assumption
  | cons y ys ih =>
    rw [List.foldl_cons]
    obtain ⟨h1, h2⟩ := ih (f x y)
    obtain ⟨hm, hb, hy⟩ := hf x y
    constructor
    · rcases List.mem_cons.1 h1 with h1 | h1
      · rw [h1]; rcases hm with h | h <;> rw [h] <;> simp
      · exact List.mem_cons_of_mem _ (List.mem_cons_of_mem _ h1)
    · intro z hz
      have hfr := h2 (f x y) List.mem_cons_self
      cases hz with
      | head => exact hle.trans _ _ _ hb hfr
      | tail _ hz =>
        cases hz with
        | head => exact hle.trans _ _ _ hy hfr
        | tail _ hz => exact h2 z (List.mem_cons_of_mem _ hz)

omit [Inhabited α] in
theorem isMax_unique (le : α → α → Bool)
    (hantisymm : ∀ a b, le a b = true → le b a = true → a = b) (r r' : α) (l l' : List α)
    (h : IsMax le r l) (h' : IsMax le r' l') (hmem : ∀ v, v ∈ l ↔ v ∈ l') : r = r' :=
  hantisymm _ _ (h'.2 r ((hmem r).1 h.1)) (h.2 r' ((hmem r').2 h'.1))

omit [Inhabited α] in
theorem better_step (le : α → α → Bool) (hle : TotalLe le) (b y : α) :
    ((if (!le y b) = true then y else b) = b ∨ (if (!le y b) = true then y else b) = y) ∧
      le b (if (!le y b) = true then y else b) = true ∧ le y (if (!le y b) = true then y else b) = true := by
  have rb : le b b = true := by cases hle.total b b <;> assumption
  have ry : le y y = true := by cases hle.total y y <;> assumption
  cases h : le y b with
  | true => simp [h, rb]
  | false =>
    have : le b y = true := by
      cases hle.total b y with
      | inl h' => exact h'
      | inr h' => rw [h] at h'; cases h'
    simp [ry, this]

omit [Inhabited α] in
theorem pick_step (le : α → α → Bool) (hle : TotalLe le) (b y : α) :
    ((if le b y = true then y else b) = b ∨ (if le b y = true then y else b) = y) ∧
      le b (if le b y = true then y else b) = true ∧ le y (if le b y = true then y else b) = true := by
  have rb : le b b = true := by cases hle.total b b <;> assumption
  have ry : le y y = true := by cases hle.total y y <;> assumption
  cases h : le b y with
  | true => simp [ry, h]
  | false =>
    have : le y b = true := by
      cases hle.total b y with
      | inl h' => rw [h] at h'; cases h'
      | inr h' => exact h'
    simp [rb, this]

/-- the model's fold (first maximum in its enumeration order) and the spec's fold (last maximum in
row-major order) pick the same element when `le` is a linear order -/
theorem reduce_value (le : α → α → Bool) (hle : TotalLe le)
    (hantisymm : ∀ a b, le a b = true → le b a = true → a = b)
    (t : Tensor α) (axes idx : List Nat) (hlt : ∀ a ∈ axes, a < t.shape.length)
    (hidx : InRange idx (keepF (fun j => axes.contains j) 0 t.shape))
    (q : List Nat → Bool)
    (hq : ∀ s, InRange s t.shape → (q s = true ↔ keepF (fun j => axes.contains j) 0 s = idx)) :
    (extremum (fun a b => !le a b)
        ((reducePositions t.shape axes).map fun pos => t.get (fullIdx t.shape.length axes idx pos))).getD default =
      (match (allIdx t.shape).filter q with
       | [] => default
       | s0 :: rest => rest.foldl (fun acc s => (fun a b => if le a b then b else a) acc (t.get s)) (t.get s0)) := by
  have hmem : ∀ v, v ∈ ((reducePositions t.shape axes).map fun pos => t.get (fullIdx t.shape.length axes idx pos)) ↔
      v ∈ ((allIdx t.shape).filter q).map t.get := by
    intro v
    simp only [List.mem_map, List.mem_filter, mem_allIdx]
    constructor
    · rintro ⟨pos, hpos, rfl⟩
      obtain ⟨h1, h2⟩ := (reduce_sources t.shape axes idx hlt hidx _).1 ⟨pos, hpos, rfl⟩
      exact ⟨_, ⟨h1, (hq _ h1).2 h2⟩, rfl⟩
    · rintro ⟨s, ⟨h1, h2⟩, rfl⟩
      obtain ⟨pos, hpos, he⟩ := (reduce_sources t.shape axes idx hlt hidx s).2 ⟨h1, (hq _ h1).1 h2⟩
      exact ⟨pos, hpos, by rw [he]⟩
  generalize ((reducePositions t.shape axes).map fun pos => t.get (fullIdx t.shape.length axes idx pos)) = L1 at hmem
  generalize (allIdx t.shape).filter q = L2 at hmem
  cases L1 with
  | nil =>
    cases L2 with
    | nil => rfl
    | cons s0 rest =>
      have := (hmem (t.get s0)).2 (by simp)
      simp at this
  | cons x xs =>
    cases L2 with
    | nil =>
      have := (hmem x).1 (by simp)
      simp at this
    | cons s0 rest =>
      simp only [extremum, Option.getD_some]
      have h1 := foldl_isMax le hle (fun b y => if (!le y b) = true then y else b) (better_step le hle) x xs
      have h2 := foldl_isMax le hle (fun b y => if le b y = true then y else b) (pick_step le hle)
        (t.get s0) (rest.map t.get)
      rw [List.foldl_map] at h2
      exact isMax_unique le hantisymm _ _ _ _ h1 h2 hmem

/-! ### Reduce: evaluating the model -/

theorem eraseDups_of_nodup (l : List Nat) (h : l.Nodup) : l.eraseDups = l := by
  induction l with
  | nil => simp
  | cons a l ih =>
    rw [List.nodup_cons] at h
    rw [List.eraseDups_cons]
    have : (l.filter fun b => !b == a) = l := by
      apply List.filter_eq_self.mpr
      intro b hb
      have : b ≠ a := fun e => h.1 (e ▸ hb)
      simpa using this
    rw [this, ih h.2]

/-- the axes actually reduced: all of them when none are given -/
def effAxes (r : Nat) (nax : List Nat) : List Nat := if nax.isEmpty then List.range r else nax

theorem effAxes_lt (r : Nat) (nax : List Nat) (h : ∀ a ∈ nax, a < r) : ∀ a ∈ effAxes r nax, a < r := by
  unfold effAxes
  split
  · intro a ha; simpa using ha
  · exact h

theorem effAxes_nodup (r : Nat) (nax : List Nat) (h : nax.Nodup) : (effAxes r nax).Nodup := by
  unfold effAxes
  split
  · exact List.nodup_range
  · exact h

/-- with no listed axes the model reduces all axes, among them axis 0: the guard cannot fire -/
theorem innerAxesOnly_effAxes (r : Nat) (nax : List Nat) (h : innerAxesOnly r nax = false) :
    innerAxesOnly r (effAxes r nax) = false := by
  cases nax with
  | nil =>
    cases r with
    | zero => rfl
    | succ n =>
      have hm : 0 ∈ List.range (n + 1) := by simp
      have : (List.range (n + 1)).all (fun a => decide (2 ≤ a)) = false := by
        rw [List.all_eq_false]
        exact ⟨0, hm, by simp⟩
      simp [innerAxesOnly, effAxes, this]
  | cons a l => simpa [effAxes] using h

theorem gReduce_ok (better : α → α → Bool) (t : Tensor α) (nax : List Nat) (hnd : nax.Nodup)
    (hlt : ∀ a ∈ nax, a < t.shape.length)
    (hin : innerAxesOnly t.shape.length (effAxes t.shape.length nax) = false) :
    gReduce better t (nax.map Int.ofNat) =
      .ok (ofFn (keepF (fun j => (effAxes t.shape.length nax).contains j) 0 t.shape) fun idx =>
        (extremum better ((reducePositions t.shape (effAxes t.shape.length nax)).map fun pos =>
          t.get (fullIdx t.shape.length (effAxes t.shape.length nax) idx pos))).getD default) := by
  unfold gReduce
  have h1 : (nax.map Int.ofNat).any (· < 0) = false := by
    simp only [List.any_eq_false, List.mem_map]
    rintro x ⟨a, _, rfl⟩
    simp
  have h2 : (nax.map Int.ofNat).any (· ≥ (t.shape.length : Int)) = false := by
    simp only [List.any_eq_false, List.mem_map]
    rintro x ⟨a, ha, rfl⟩
    have := hlt a ha
    simp; omega
  have h3 : (nax.map Int.ofNat).map Int.toNat = nax := by
    rw [List.map_map]
    conv => rhs; rw [← List.map_id nax]
    apply List.map_congr_left
    intro a _
    simp
  have h4 : (nax.map Int.ofNat).isEmpty = nax.isEmpty := by cases nax <;> rfl
  simp only [h1, h2, h3, h4, Bool.false_eq_true, if_false]
  have h5 : (if nax.isEmpty = true then List.range t.shape.length else nax) = effAxes t.shape.length nax := rfl
  rw [h5, eraseDups_of_nodup _ (effAxes_nodup _ _ hnd)]
  simp only [ne_eq, not_true_eq_false, if_false]
  refine Eq.trans (if_neg ?_) rfl
  intro hc
  exact Bool.false_ne_true (hin.symm.trans hc)

theorem normAxes_some {r : Nat} {axes : List Int} {nax : List Nat}
    (h : axes.mapM (Spec.normAxis r) = some nax) :
    axes.map (fun a => if a < 0 then (r : Int) + a else a) = nax.map Int.ofNat ∧ ∀ a ∈ nax, a < r := by
  induction axes generalizing nax with
  | nil =>
    simp at h
    subst h
    simp
  | cons a axes ih =>
    rw [List.mapM_cons] at h
    cases ha : Spec.normAxis r a with
    | none => simp [ha] at h
    | some x =>
      cases hr : axes.mapM (Spec.normAxis r) with
      | none => simp [ha, hr] at h
      | some rest =>
        simp [ha, hr] at h
        subst h
        obtain ⟨i1, i2⟩ := ih hr
        obtain ⟨n1, n2, n3, n4⟩ := normAxis_some ha
        refine ⟨?_, ?_⟩
        · rw [List.map_cons, List.map_cons, i1]
          congr 1
          show _ = (x : Int)
          rw [← n3]
          split <;> omega
        · intro b hb
          cases hb with
          | head => exact n4
          | tail _ hb => exact i2 b hb

/-! ### Reduce = spec (linear order) -/

theorem reduce_no_axes_keepdims (better : α → α → Bool) (t : Tensor α) (h : prod t.shape ≠ 1) :
    reduceOp better t [] true = .error .shape := by
  have h0 := gReduce_ok better t [] List.nodup_nil (by simp)
    (innerAxesOnly_effAxes _ _ (by simp [innerAxesOnly]))
  unfold reduceOp
  simp only [List.map_nil] at h0 ⊢
  rw [h0]
  simp only [if_true, List.foldl_nil, ofFn_shape]
  have : keepF (fun j => (effAxes t.shape.length []).contains j) 0 t.shape = [] := by
    unfold keepF
    rw [List.map_eq_nil_iff, List.filter_eq_nil_iff]
    intro x hx
    have := List.mem_zipIdx hx
    simp [effAxes]
    omega
  rw [this]
  exact if_neg h

theorem reduce_partial' (le : α → α → Bool) (hle : TotalLe le)
    (hantisymm : ∀ a b, le a b = true → le b a = true → a = b)
    (t : Tensor α) (axes : List Int) (keep : Bool)
    (nax : List Nat) (hax : axes.mapM (Spec.normAxis t.shape.length) = some nax) (hnd : nax.Nodup)
    (hguard : ¬ (axes = [] ∧ keep = true ∧ prod t.shape ≠ 1))
    (hinner : innerAxesOnly t.shape.length nax = false)
    (s : Tensor α) (hs : Spec.reduce (fun a b => if le a b then b else a) t axes keep = some s) :
    ∃ m, reduceOp (fun a b => !le a b) t axes keep = .ok m ∧ Equiv m s := by
  obtain ⟨hmap, hlt⟩ := normAxes_some hax
  have hlt' := effAxes_lt _ _ hlt
  have h0 := gReduce_ok (fun a b => !le a b) t nax hnd hlt (innerAxesOnly_effAxes _ _ hinner)
  unfold Spec.reduce at hs
  simp only [hax, eraseDups_of_nodup nax hnd, Option.some.injEq] at hs
  subst hs
  have heff : (if nax.isEmpty = true then List.range t.shape.length else nax) = effAxes t.shape.length nax := rfl
  unfold reduceOp
  simp only [hmap, h0, heff]
  cases keep with
  | false =>
    simp only [Bool.false_eq_true, if_false]
    refine ⟨_, rfl, rfl, ofFn_WF _ _, ofFn_WF _ _, ?_⟩
    intro idx hidx
    simp only [ofFn_shape] at hidx
    rw [get_ofFn _ _ _ hidx]
    refine Eq.trans ?_ (get_ofFn _ _ _ hidx).symm
    apply reduce_value le hle hantisymm t _ idx hlt' hidx
    intro s _
    exact beq_iff_eq
  | true =>
    simp only [if_true]
    have hnew : (nax.map Int.ofNat).foldl (fun s a => s.set a.toNat 1) t.shape =
        maskWith 1 (fun j => (effAxes t.shape.length nax).contains j) 0 t.shape := by
      rw [List.foldl_map]
      have : (fun (s : List Nat) (a : Nat) => s.set (Int.ofNat a).toNat 1) = fun s a => s.set a 1 := by
        funext s a; simp
      rw [this, foldl_set_one]
      cases hn : nax with
      | nil =>
        have hax0 : axes = [] := by
          subst hn
          cases axes with
          | nil => rfl
          | cons _ _ => simp at hmap
        have hp : prod t.shape = 1 := by
          apply Classical.byContradiction
          intro hp
          exact hguard ⟨hax0, rfl, hp⟩
        rw [maskWith_self _ _ _ (prod_eq_one _ hp), maskWith_self _ _ _ (prod_eq_one _ hp)]
      | cons a l => rfl
    rw [hnew, if_pos (show prod _ = prod (ofFn (keepF _ _ _) _).shape from prod_mask_one _ _ _)]
    refine ⟨_, rfl, rfl, ?_, ofFn_WF _ _, ?_⟩
    · simp only [Tensor.WF, prod_mask_one]
      exact ofFn_WF _ _
    · intro idx hidx
      simp only at hidx
      have hidxS : InRange idx (List.map (fun x => if (effAxes t.shape.length nax).contains x.2 = true then 1 else x.1)
          t.shape.zipIdx) := hidx
      rw [get_ofFn _ _ _ hidxS]
      have hk := InRange_keepF _ _ _ _ hidx
      have hget := get_ofFn (keepF (fun j => (effAxes t.shape.length nax).contains j) 0 t.shape) (fun idx =>
        (extremum (fun a b => !le a b) ((reducePositions t.shape (effAxes t.shape.length nax)).map fun pos =>
          t.get (fullIdx t.shape.length (effAxes t.shape.length nax) idx pos))).getD default) _ hk
      have hr : ∀ (d : List α), Tensor.get ⟨maskWith 1 (fun j => (effAxes t.shape.length nax).contains j) 0 t.shape, d⟩ idx =
          Tensor.get ⟨keepF (fun j => (effAxes t.shape.length nax).contains j) 0 t.shape, d⟩
            (keepF (fun j => (effAxes t.shape.length nax).contains j) 0 idx) := by
        intro d
        simp only [Tensor.get, ravel_mask _ _ _ _ hidx]
      refine (hr _).trans (hget.trans ?_)
      apply reduce_value le hle hantisymm t _ _ hlt' hk
      intro s hs
      rw [← maskZero_eq_iff _ 0 t.shape idx s hidx (InRange_length hs)]
      exact beq_iff_eq

/-- the guard of `gReduce` fires: axis 2 of a rank-4 tensor reduced first -/
theorem reduce_rank4_inner_unmodelled (better : α → α → Bool) (t : Tensor α) (keep : Bool)
    (h : t.shape.length = 4) : reduceOp better t [2] keep = .error .unmodelled := by
  have hg : gReduce better t [2] = .error .unmodelled := by
    unfold gReduce
    rw [h]
    rfl
  have hax : ([2] : List Int).map (fun a => if a < 0 then ((t.shape.length : Nat) : Int) + a else a) = [2] := by
    simp
  unfold reduceOp
  simp only [hax, hg]

/-! ### the generic (preorder-only) ReduceMax statement fails: witness -/

/-- pairs compared on the first component: a total preorder that is not antisymmetric -/
def leFst : Nat × Nat → Nat × Nat → Bool := fun a b => decide (a.1 ≤ b.1)

theorem leFst_total : TotalLe leFst :=
  ⟨fun a b => by simp only [leFst, decide_eq_true_eq]; exact Nat.le_total _ _,
   fun a b c h1 h2 => by simp only [leFst, decide_eq_true_eq] at *; exact Nat.le_trans h1 h2⟩

/-- two `le`-equivalent but different elements -/
def tiePair : Tensor (Nat × Nat) := ⟨[2], [(1, 0), (1, 1)]⟩

theorem tiePair_WF : tiePair.WF := rfl

theorem tiePair_pos : Pos tiePair.shape := by
  intro n hn
  simp only [tiePair, List.mem_singleton] at hn
  omega

/-- the spec (fold with `pick`, last maximum) returns `(1,1)`, the model (first maximum) `(1,0)` -/
theorem tiePair_spec :
    Spec.reduce (fun a b => if leFst a b then b else a) tiePair [0] false = some ⟨[], [(1, 1)]⟩ := by decide

theorem tiePair_model :
    reduceOp (fun a b => !leFst a b) tiePair [0] false = .ok ⟨[], [(1, 0)]⟩ := by decide

theorem totalLe_int : TotalLe (fun a b : Int => decide (a ≤ b)) :=
  ⟨fun a b => by simp only [decide_eq_true_eq]; exact Int.le_total _ _,
   fun a b c h1 h2 => by simp only [decide_eq_true_eq] at *; exact Int.le_trans h1 h2⟩

theorem antisymm_int : ∀ a b : Int, decide (a ≤ b) = true → decide (b ≤ a) = true → a = b := by
  intro a b h1 h2
  simp only [decide_eq_true_eq] at *
  omega

end Gonnx.Proofs.Reduce
