import Gonnx.Ops.Shape
import Gonnx.Spec.Shape
/-
Helper lemmas for C07 (Reshape, Flatten, Squeeze, Unsqueeze, Shape).
-/
namespace Gonnx.C07
open Gonnx
variable {α : Type}

def Pos (s : List Nat) : Prop := ∀ n ∈ s, 0 < n

/-- a 1-D int64 tensor holding `l` -/
def vec (l : List Int) : Tensor Int := ⟨[l.length], l⟩

/-- the tensor with the data of `t` and shape `s` -/
def withShape (t : Tensor α) (s : List Nat) : Tensor α := { t with shape := s }

end Gonnx.C07

namespace Gonnx.Proofs.Shape
open Gonnx Gonnx.C07
variable {α : Type}

/-! ### basics: `iprod`, `gReshape`, `vec` -/

theorem iprod_ofNat (l : List Nat) : iprod (l.map (fun (d : Nat) => (d : Int))) = (prod l : Int) := by
  induction l with
  | nil => rfl
  | cons n l ih => simp [iprod, ih, Int.natCast_mul]

theorem any_neg_ofNat (l : List Nat) : (l.map (fun (d : Nat) => (d : Int))).any (· < 0) = false := by
  induction l with
  | nil => rfl
  | cons n l ih => simp [ih]

theorem map_toNat_ofNat (l : List Nat) : (l.map (fun (d : Nat) => (d : Int))).map Int.toNat = l := by
  induction l with
  | nil => rfl
  | cons n l ih => simpa using ih

/-- `gReshape` to a shape of naturals: only the element count is checked -/
theorem gReshape_nat (t : Tensor α) (s : List Nat) :
    gReshape t (s.map (fun (d : Nat) => (d : Int))) =
      if prod s = prod t.shape then .ok (withShape t s) else .error .shape := by
  unfold gReshape
  rw [iprod_ofNat, any_neg_ofNat, map_toNat_ofNat]
  by_cases h : prod s = prod t.shape
  · simp [h, withShape]
  · have : ¬ ((prod s : Int) = (prod t.shape : Int)) := by omega
    simp [h, this]

theorem gReshape_data {t t' : Tensor α} {s : List Int} (h : gReshape t s = .ok t') :
    t'.data = t.data := by
  unfold gReshape at h
  split at h
  · cases h
  · split at h
    · cases h
    · cases h; rfl

theorem gReshape_nonneg {t t' : Tensor α} {s : List Int} (h : gReshape t s = .ok t') :
    ∀ d ∈ s, 0 ≤ d := by
  unfold gReshape at h
  split at h
  · cases h
  · split at h
    · cases h
    · rename_i hn
      intro d hd
      simp only [List.any_eq_true, decide_eq_true_eq, not_exists, not_and] at hn
      have := hn d hd
      omega

theorem vec_ok {l : List Int} (hne : l ≠ []) :
    ¬ ((vec l).shape = [] ∨ prod (vec l).shape = 0) := by
  have : l.length ≠ 0 := by simpa using hne
  simp [vec, this]

/-! ### Flatten -/

theorem prod_take_drop (s : List Nat) (a : Nat) : prod (s.take a) * prod (s.drop a) = prod s := by
  rw [← prod_append, List.take_append_drop]

theorem gReshape_two (t : Tensor α) (a b : Nat) :
    gReshape t [(a : Int), (b : Int)] =
      if prod [a, b] = prod t.shape then .ok (withShape t [a, b]) else .error .shape :=
  gReshape_nat t [a, b]

theorem flatten_eq_spec (t : Tensor α) (axis : Int) :
    (flattenOp t axis).toOption = (Spec.flattenShape t.shape axis).map (withShape t) := by
  unfold flattenOp Spec.flattenShape
  simp only
  by_cases h0 : (if axis < 0 then (t.shape.length : Int) + axis else axis) = 0
  · rw [if_pos h0]
    have hr : ¬ (axis < -(t.shape.length : Int) ∨ axis > (t.shape.length : Int)) := by
      split at h0 <;> omega
    have ha : (if axis < 0 then axis + (t.shape.length : Int) else axis).toNat = 0 := by
      split at h0 <;> simp_all <;> omega
    rw [if_neg hr, ha]
    have := gReshape_two t 1 (prod t.shape)
    simp only [Int.natCast_one] at this
    rw [this]
    simp [Except.toOption]
  · rw [if_neg h0]
    by_cases hr : axis < -(t.shape.length : Int) ∨ axis > (t.shape.length : Int)
    · have : (if axis < 0 then (t.shape.length : Int) + axis else axis) < 0 ∨
          (if axis < 0 then (t.shape.length : Int) + axis else axis) > (t.shape.length : Int) := by
        split <;> omega
      rw [if_pos this, if_pos hr]; rfl
    · have : ¬ ((if axis < 0 then (t.shape.length : Int) + axis else axis) < 0 ∨
          (if axis < 0 then (t.shape.length : Int) + axis else axis) > (t.shape.length : Int)) := by
        split <;> omega
      rw [if_neg this, if_neg hr]
      have he : (if axis < 0 then (t.shape.length : Int) + axis else axis) =
          (if axis < 0 then axis + (t.shape.length : Int) else axis) := by
        split <;> omega
      rw [he, gReshape_two]
      simp [prod_take_drop, Except.toOption]

/-! ### Squeeze -/

theorem filter_zipIdx_fst (p : Nat → Bool) (l : List Nat) (k : Nat) :
    ((l.zipIdx k).filter fun x => p x.1).map (·.1) = l.filter p := by
  induction l generalizing k with
  | nil => rfl
  | cons a l ih =>
    simp only [List.zipIdx_cons, List.filter_cons]
    by_cases h : p a = true
    · simp [h, ih]
    · simp [h, ih]

theorem prod_filter_ne_one (l : List Nat) : prod (l.filter (· ≠ 1)) = prod l := by
  induction l with
  | nil => rfl
  | cons a l ih =>
    simp only [List.filter_cons]
    simp only [ne_eq, decide_not] at ih
    by_cases h : a = 1
    · simp [h, ih]
    · simp [h, ih]

theorem squeezeShape_all (cur : List Nat) :
    squeezeShape cur ((cur.zipIdx.filter fun (d, _) => d = 1).map fun (_, i) => (i : Int)) =
      cur.filter (· ≠ 1) := by
  unfold squeezeShape
  rw [← filter_zipIdx_fst (fun d => decide (d ≠ 1)) cur 0]
  congr 1
  apply List.filter_congr
  rintro ⟨d, i⟩ hx
  have hd : cur[i]? = some d := List.mk_mem_zipIdx_iff_getElem?.mp hx
  rw [Bool.eq_iff_iff]
  simp only [Bool.not_eq_true', List.contains_eq_mem, decide_eq_false_iff_not, List.mem_map,
    List.mem_filter, decide_eq_true_eq, not_exists, not_and, and_imp, Prod.forall, ne_eq]
  constructor
  · intro h h1
    exact h d i hx h1 rfl
  · intro h d' i' hx' h1 hi
    have hi' : i' = i := by omega
    subst hi'
    have := List.mk_mem_zipIdx_iff_getElem?.mp hx'
    rw [hd] at this
    cases this
    exact h h1

theorem squeeze_all (t : Tensor α) :
    squeezeOp t none = .ok (withShape t (t.shape.filter (· ≠ 1))) := by
  unfold squeezeOp
  simp only
  rw [squeezeShape_all, gReshape_nat, if_pos (prod_filter_ne_one _)]


theorem prod_filter_split (l : List (Nat × Nat)) (p : Nat × Nat → Bool) :
    prod ((l.filter p).map (·.1)) * prod ((l.filter fun x => !p x).map (·.1)) = prod (l.map (·.1)) := by
  induction l with
  | nil => rfl
  | cons a l ih =>
    simp only [List.filter_cons, List.map_cons, prod_cons]
    by_cases h : p a = true
    · simp only [h, if_true, Bool.not_true, List.map_cons, prod_cons, Bool.false_eq_true, if_false]
      rw [Nat.mul_assoc, ih]
    · have h' : p a = false := by simpa using h
      simp only [h', Bool.not_false, if_true, List.map_cons, prod_cons, Bool.false_eq_true, if_false]
      rw [Nat.mul_left_comm, ih]

theorem prod_pos {l : List Nat} (h : Pos l) : 0 < prod l := by
  induction l with
  | nil => simp
  | cons a l ih =>
    have ha : 0 < a := h a (by simp)
    have hl : 0 < prod l := ih (fun n hn => h n (by simp [hn]))
    simpa using Nat.mul_pos ha hl

theorem prod_eq_one_iff (l : List Nat) : prod l = 1 ↔ ∀ d ∈ l, d = 1 := by
  induction l with
  | nil => simp
  | cons a l ih =>
    simp only [prod_cons, List.mem_cons, forall_eq_or_imp, ← ih]
    constructor
    · intro h
      exact ⟨Nat.eq_one_of_mul_eq_one_right h, Nat.eq_one_of_mul_eq_one_left h⟩
    · rintro ⟨h1, h2⟩
      rw [h1, h2]

theorem contains_map_ofNat (nl : List Nat) (i : Nat) :
    (nl.map (fun (d : Nat) => (d : Int))).contains (i : Int) = nl.contains i := by
  rw [Bool.eq_iff_iff]
  simp only [List.contains_eq_mem, List.mem_map, decide_eq_true_eq]
  constructor
  · rintro ⟨a, ha, hai⟩
    have : a = i := by omega
    exact this ▸ ha
  · intro h
    exact ⟨i, h, rfl⟩

theorem normAxes_some {r : Int} {axes : List Int} (h : (Spec.normAxes r axes).isSome) :
    (∀ a ∈ axes, -r ≤ a ∧ a < r) ∧
    Spec.normAxes r axes = some (axes.map fun a => (if a < 0 then a + r else a).toNat) := by
  unfold Spec.normAxes at h ⊢
  split at h
  · rename_i hall
    simp only at h
    split at h
    · rename_i hd
      refine ⟨by simpa using hall, ?_⟩
      rw [if_pos hall]; simp only; rw [if_pos hd]
    · cases h
  · cases h

/-- in-range axes: the model's integer positions are the casts of the spec's naturals -/
theorem squeeze_dims_eq {r : Nat} {axes : List Int} (h : ∀ a ∈ axes, -(r : Int) ≤ a ∧ a < r) :
    (axes.map fun v => if v < 0 then (r : Int) + v else v) =
      (axes.map fun a => (if a < 0 then a + (r : Int) else a).toNat).map (fun (d : Nat) => (d : Int)) := by
  rw [List.map_map]
  apply List.map_congr_left
  intro a ha
  have := h a ha
  simp only [Function.comp]
  split <;> omega

theorem squeezeShape_nat (cur nl : List Nat) :
    squeezeShape cur (nl.map (fun (d : Nat) => (d : Int))) =
      (cur.zipIdx.filter fun (_, i) => !nl.contains i).map (·.1) := by
  unfold squeezeShape
  simp only [contains_map_ofNat]

/-- with positive extents, the element count survives exactly when every removed extent is 1 -/
theorem squeeze_prod_iff (cur nl : List Nat) (hpos : Pos cur) (hlt : ∀ a ∈ nl, a < cur.length) :
    prod ((cur.zipIdx.filter fun (_, i) => !nl.contains i).map (·.1)) = prod cur ↔
      ∀ a ∈ nl, cur.getD a 0 = 1 := by
  have hsplit := prod_filter_split cur.zipIdx (fun x => !nl.contains x.2)
  rw [List.zipIdx_map_fst] at hsplit
  have hc := prod_pos hpos
  generalize hK : prod ((cur.zipIdx.filter fun x => !nl.contains x.2).map (·.1)) = K at hsplit
  generalize hR : ((cur.zipIdx.filter fun x => !!nl.contains x.2).map (·.1)) = Rm at hsplit
  have h1 : K = prod cur ↔ prod Rm = 1 := by
    constructor
    · intro hk
      rw [hk] at hsplit
      have : prod cur * prod Rm = prod cur * 1 := by omega
      exact Nat.eq_of_mul_eq_mul_left hc this
    · intro hr
      rw [hr] at hsplit; omega
  show K = prod cur ↔ _
  rw [h1, prod_eq_one_iff, ← hR]
  constructor
  · intro h a ha
    have hl := hlt a ha
    apply h
    simp only [List.mem_map, List.mem_filter, Bool.not_not, List.contains_eq_mem, decide_eq_true_eq]
    refine ⟨(cur[a], a), ⟨?_, ha⟩, ?_⟩
    · exact List.mk_mem_zipIdx_iff_getElem?.mpr (by simp)
    · simp [List.getD, hl]
  · intro h d hd
    simp only [List.mem_map, List.mem_filter, Bool.not_not, List.contains_eq_mem, decide_eq_true_eq] at hd
    obtain ⟨⟨d', i⟩, ⟨hx, hi⟩, rfl⟩ := hd
    have := List.mk_mem_zipIdx_iff_getElem?.mp hx
    have h2 := h i hi
    simpa [List.getD, this] using h2

theorem squeeze_pos (t : Tensor α) (axes : List Int) (hne : axes ≠ []) (hpos : Pos t.shape)
    (hvalid : (Spec.normAxes t.shape.length axes).isSome) :
    (squeezeOp t (some (vec axes))).toOption =
      (Spec.squeezeShape t.shape (some axes)).map (withShape t) := by
  obtain ⟨hr, hn⟩ := normAxes_some hvalid
  have hlen : axes.length ≠ 0 := by simpa using hne
  unfold squeezeOp Spec.squeezeShape
  simp only [hn]
  have h1 : ¬ prod (vec axes).shape = 0 := by simp [vec, hlen]
  have h2 : ¬ (vec axes).shape = [] := by simp [vec]
  rw [if_neg h1, if_neg h2]
  show (gReshape t ((squeezeShape t.shape (axes.map _)).map _)).toOption = _
  rw [squeeze_dims_eq hr, squeezeShape_nat, gReshape_nat]
  have hlt : ∀ a ∈ (axes.map fun a => (if a < 0 then a + (t.shape.length : Int) else a).toNat),
      a < t.shape.length := by
    intro a ha
    simp only [List.mem_map] at ha
    obtain ⟨x, hx, rfl⟩ := ha
    have := hr x hx
    split <;> omega
  have hiff := squeeze_prod_iff t.shape _ hpos hlt
  by_cases hall : ∀ a ∈ (axes.map fun a => (if a < 0 then a + (t.shape.length : Int) else a).toNat),
      t.shape.getD a 0 = 1
  · rw [if_pos (hiff.mpr hall), if_pos (by simpa using hall)]
    rfl
  · rw [if_neg (fun h => hall (hiff.mp h)), if_neg (by simpa using hall)]
    rfl

/-! ### Unsqueeze -/

theorem insertSorted_perm (x : Int) (l : List Int) : (insertSorted x l).Perm (x :: l) := by
  induction l with
  | nil => exact List.Perm.refl _
  | cons y ys ih =>
    unfold insertSorted
    split
    · exact List.Perm.refl _
    · exact (List.Perm.cons y ih).trans (List.Perm.swap x y ys)

theorem sortInts_perm (l : List Int) : (sortInts l).Perm l := by
  induction l with
  | nil => exact List.Perm.refl _
  | cons x l ih =>
    show (insertSorted x (sortInts l)).Perm (x :: l)
    exact (insertSorted_perm x _).trans (List.Perm.cons x ih)

theorem insertSorted_sorted (x : Int) (l : List Int) (h : l.Pairwise (· ≤ ·)) :
    (insertSorted x l).Pairwise (· ≤ ·) := by
  induction l with
  | nil => simp [insertSorted]
  | cons y ys ih =>
    unfold insertSorted
    rw [List.pairwise_cons] at h
    split
    · rename_i hxy
      rw [List.pairwise_cons]
      refine ⟨?_, List.pairwise_cons.mpr h⟩
      intro a ha
      rcases List.mem_cons.mp ha with rfl | ha
      · exact hxy
      · exact Int.le_trans hxy (h.1 a ha)
    · rename_i hxy
      rw [List.pairwise_cons]
      refine ⟨?_, ih h.2⟩
      intro a ha
      rcases List.mem_cons.mp ((insertSorted_perm x ys).mem_iff.mp ha) with rfl | ha
      · omega
      · exact h.1 a ha

theorem sortInts_sorted (l : List Int) : (sortInts l).Pairwise (· ≤ ·) := by
  induction l with
  | nil => exact List.Pairwise.nil
  | cons x l ih => exact insertSorted_sorted x _ ih

theorem hasDup_false_iff (l : List Int) (h : l.Pairwise (· ≤ ·)) :
    hasDuplicatesSorted l = false ↔ l.Pairwise (· < ·) := by
  induction l with
  | nil => simp [hasDuplicatesSorted]
  | cons a l ih =>
    cases l with
    | nil => simp [hasDuplicatesSorted]
    | cons b rest =>
      rw [List.pairwise_cons] at h
      have ih' := ih h.2
      simp only [hasDuplicatesSorted, Bool.or_eq_false_iff, ih']
      rw [List.pairwise_cons (a := a)]
      constructor
      · rintro ⟨hab, hp⟩
        refine ⟨?_, hp⟩
        have hab' : a ≠ b := by simpa using hab
        have hle := h.1 b (by simp)
        intro x hx
        rcases List.mem_cons.mp hx with rfl | hx
        · omega
        · have := (List.pairwise_cons.mp hp).1 x hx
          omega
      · rintro ⟨hlt, hp⟩
        refine ⟨?_, hp⟩
        have := hlt b (by simp)
        simp; omega

theorem eraseDups_length_le : (l : List Nat) → l.eraseDups.length ≤ l.length
  | [] => by simp
  | a :: l => by
    rw [List.eraseDups_cons]
    have := eraseDups_length_le (l.filter fun b => !b == a)
    have h1 := List.length_filter_le (fun b => !b == a) l
    simp only [List.length_cons]; omega
termination_by l => l.length
decreasing_by
  have h1 := List.length_filter_le (fun b => !b == a) l
  simp only [List.length_cons]; omega

theorem eraseDups_length_eq_iff (l : List Nat) : l.eraseDups.length = l.length ↔ l.Nodup := by
  induction l with
  | nil => simp
  | cons a l ih =>
    rw [List.eraseDups_cons, List.nodup_cons, ← ih]
    simp only [List.length_cons]
    have h1 := List.length_filter_le (fun b => !b == a) l
    have h2 := eraseDups_length_le (l.filter fun b => !b == a)
    constructor
    · intro h
      have hf : (l.filter fun b => !b == a).length = l.length := by omega
      have hall := List.length_filter_eq_length_iff.mp hf
      have hfe : (l.filter fun b => !b == a) = l := List.filter_eq_self.mpr hall
      rw [hfe] at h
      refine ⟨?_, by omega⟩
      intro ha
      have := hall a ha
      simp at this
    · rintro ⟨ha, h⟩
      have hfe : (l.filter fun b => !b == a) = l := by
        apply List.filter_eq_self.mpr
        intro b hb
        have : b ≠ a := fun e => ha (e ▸ hb)
        simpa using this
      rw [hfe, h]

theorem sorted_lt_bound {l : List Nat} {a hi : Nat} (h : (a :: l).Pairwise (· < ·))
    (hb : ∀ x ∈ a :: l, x < hi) : a + (l.length + 1) ≤ hi := by
  induction l generalizing a with
  | nil => have := hb a (by simp); simp; omega
  | cons b l ih =>
    rw [List.pairwise_cons] at h
    have hab := h.1 b (by simp)
    have := ih h.2 (fun x hx => hb x (List.mem_cons_of_mem _ hx))
    simp only [List.length_cons]; omega

theorem insertOnes_prod (cur sa : List Nat) (fuel i : Nat) (hs : sa.Pairwise (· < ·))
    (hge : ∀ x ∈ sa, i ≤ x) (hlt : ∀ x ∈ sa, x < i + fuel) (hf : fuel = cur.length + sa.length) :
    prod (insertOnes cur sa fuel i) = prod cur := by
  induction fuel generalizing cur sa i with
  | zero =>
    have : cur = [] := List.eq_nil_of_length_eq_zero (by omega)
    subst this
    simp [insertOnes]
  | succ fuel ih =>
    cases sa with
    | nil =>
      cases cur with
      | nil => simp at hf
      | cons o os =>
        simp only [insertOnes, prod_cons]
        rw [ih os [] (i+1) hs (by simp) (by simp) (by simpa using hf)]
    | cons a rest =>
      rw [List.pairwise_cons] at hs
      by_cases hai : a = i
      · simp only [insertOnes, if_pos hai, prod_cons]
        rw [ih cur rest (i+1) hs.2]
        · simp
        · intro x hx; have := hs.1 x hx; omega
        · intro x hx; have := hlt x (List.mem_cons_of_mem _ hx); omega
        · simp only [List.length_cons] at hf; omega
      · have hgt : i < a := by have := hge a (by simp); omega
        have hb := sorted_lt_bound (List.pairwise_cons.mpr hs) hlt
        cases cur with
        | nil => simp only [List.length_cons, List.length_nil] at hf; omega
        | cons o os =>
          simp only [insertOnes, if_neg hai, prod_cons]
          rw [ih os (a :: rest) (i+1) (List.pairwise_cons.mpr hs)]
          · intro x hx
            rcases List.mem_cons.mp hx with rfl | hx
            · omega
            · have := hs.1 x hx; omega
          · intro x hx; have := hlt x hx; omega
          · simp only [List.length_cons] at hf ⊢; omega

theorem insertOnes_eq_go (n cur sa : List Nat) (fuel i : Nat) (hs : sa.Pairwise (· < ·))
    (hge : ∀ x ∈ sa, i ≤ x) (hmem : ∀ j, i ≤ j → (n.contains j = true ↔ j ∈ sa)) :
    insertOnes cur sa fuel i = Spec.unsqueezeShape.go n i fuel cur := by
  induction fuel generalizing cur sa i with
  | zero => simp [insertOnes, Spec.unsqueezeShape.go]
  | succ fuel ih =>
    cases sa with
    | nil =>
      have hc : n.contains i = false := by
        have := hmem i (Nat.le_refl _)
        simpa using this
      cases cur with
      | nil => simp only [insertOnes, Spec.unsqueezeShape.go, hc, Bool.false_eq_true, if_false]
      | cons o os =>
        simp only [insertOnes, Spec.unsqueezeShape.go, hc, Bool.false_eq_true, if_false]
        rw [ih os [] (i+1) hs (by simp) (fun j hj => hmem j (by omega))]
    | cons a rest =>
      rw [List.pairwise_cons] at hs
      by_cases hai : a = i
      · have hc : n.contains i = true := (hmem i (Nat.le_refl _)).mpr (by simp [hai])
        simp only [insertOnes, Spec.unsqueezeShape.go, if_pos hai, hc, if_true]
        rw [ih cur rest (i+1) hs.2]
        · intro x hx; have := hs.1 x hx; omega
        · intro j hj
          rw [hmem j (by omega), List.mem_cons]
          constructor
          · rintro (h | h)
            · omega
            · exact h
          · exact Or.inr
      · have hgt : i < a := by have := hge a (by simp); omega
        have hc : n.contains i = false := by
          have := hmem i (Nat.le_refl _)
          rw [Bool.eq_false_iff]
          intro h
          rcases List.mem_cons.mp (this.mp h) with h | h
          · omega
          · have := hs.1 i h; omega
        cases cur with
        | nil => simp only [insertOnes, Spec.unsqueezeShape.go, hc, if_neg hai, Bool.false_eq_true, if_false]
        | cons o os =>
          simp only [insertOnes, Spec.unsqueezeShape.go, if_neg hai, hc, Bool.false_eq_true, if_false]
          rw [ih os (a :: rest) (i+1) (List.pairwise_cons.mpr hs)]
          · intro x hx
            rcases List.mem_cons.mp hx with rfl | hx
            · omega
            · have := hs.1 x hx; omega
          · intro j hj; exact hmem j (by omega)

theorem unsqueezeOp_unfold (t : Tensor α) (axes : List Int) (hne : axes ≠ []) :
    unsqueezeOp t (vec axes) =
      if ¬ (∀ a ∈ axes, -((t.shape.length + axes.length : Nat) : Int) ≤ a ∧
            a < ((t.shape.length + axes.length : Nat) : Int)) then .error .axis
      else if hasDuplicatesSorted (sortInts (axes.map fun a =>
            if a < 0 then a + ((t.shape.length + axes.length : Nat) : Int) else a)) = true then
        .error .inputInvalid
      else gReshape t ((insertOnes t.shape ((sortInts (axes.map fun a =>
            if a < 0 then a + ((t.shape.length + axes.length : Nat) : Int) else a)).map Int.toNat)
            (t.shape.length + axes.length) 0).map (fun (d : Nat) => (d : Int))) := by
  have hlen : axes.length ≠ 0 := by simpa using hne
  have h1 : ¬ prod (vec axes).shape = 0 := by simp [vec, hlen]
  have h2 : ¬ (vec axes).shape = [] := by simp [vec]
  unfold unsqueezeOp
  rw [if_neg h1, if_neg h2]
  dsimp only [vec]
  simp only [Int.natCast_add]
  have h3 : ((t.shape.length : Int) + (axes.length : Int)).toNat = t.shape.length + axes.length := by
    omega
  rw [h3]
  by_cases hr : ∀ a ∈ axes, -((t.shape.length : Int) + (axes.length : Int)) ≤ a ∧
      a < (t.shape.length : Int) + (axes.length : Int)
  · have hall : (axes.all fun a => decide (-((t.shape.length : Int) + (axes.length : Int)) ≤ a ∧
        a ≤ (t.shape.length : Int) + (axes.length : Int) - 1)) = true := by
      simp only [List.all_eq_true, decide_eq_true_eq]
      intro a ha; have := hr a ha; omega
    rw [hall, if_neg (show ¬ ((!true) = true) by decide), if_neg (show ¬¬ _ from fun h => h hr)]
  · have hall : (axes.all fun a => decide (-((t.shape.length : Int) + (axes.length : Int)) ≤ a ∧
        a ≤ (t.shape.length : Int) + (axes.length : Int) - 1)) = false := by
      rw [Bool.eq_false_iff]
      intro h
      apply hr
      simp only [List.all_eq_true, decide_eq_true_eq] at h
      intro a ha; have := h a ha; omega
    rw [hall, if_pos (show (!false) = true by decide), if_pos hr]


theorem sorted_facts (m : List Int) (R : Nat) (hm : ∀ x ∈ m, 0 ≤ x ∧ x < (R : Int)) :
    (hasDuplicatesSorted (sortInts m) = false ↔ (m.map Int.toNat).Nodup) ∧
    (hasDuplicatesSorted (sortInts m) = false → ((sortInts m).map Int.toNat).Pairwise (· < ·)) ∧
    (∀ x ∈ (sortInts m).map Int.toNat, x < R) ∧ ((sortInts m).map Int.toNat).length = m.length ∧
    (∀ j, (m.map Int.toNat).contains j = true ↔ j ∈ (sortInts m).map Int.toNat) := by
  have hperm := sortInts_perm m
  have hperm' := hperm.map Int.toNat
  have hsi : ∀ x ∈ sortInts m, 0 ≤ x ∧ x < (R : Int) := fun x hx => hm x (hperm.mem_iff.mp hx)
  have hsorted := sortInts_sorted m
  have hiff1 := hasDup_false_iff _ hsorted
  have hP : (sortInts m).Pairwise (· < ·) ↔ ((sortInts m).map Int.toNat).Pairwise (· < ·) := by
    rw [List.pairwise_map]
    constructor
    · apply List.Pairwise.imp_of_mem
      intro a b ha hb hab
      have := hsi a ha; have := hsi b hb; omega
    · apply List.Pairwise.imp_of_mem
      intro a b ha hb hab
      have := hsi a ha; have := hsi b hb; omega
  have hle : ((sortInts m).map Int.toNat).Pairwise (· ≤ ·) := by
    rw [List.pairwise_map]
    exact hsorted.imp (fun h => Int.toNat_le_toNat h)
  have hN : ((sortInts m).map Int.toNat).Nodup ↔ ((sortInts m).map Int.toNat).Pairwise (· < ·) := by
    constructor
    · intro h
      exact (hle.and h).imp (fun ⟨h1, h2⟩ => by omega)
    · intro h
      exact h.imp (fun h => by omega)
  refine ⟨?_, ?_, ?_, ?_, ?_⟩
  · rw [hiff1, hP, ← hN]; exact hperm'.nodup_iff
  · intro h; exact hP.mp (hiff1.mp h)
  · intro x hx
    simp only [List.mem_map] at hx
    obtain ⟨y, hy, rfl⟩ := hx
    have := hsi y hy; omega
  · rw [List.length_map]; exact hperm.length_eq
  · intro j
    rw [List.contains_eq_mem, decide_eq_true_eq]
    exact hperm'.mem_iff.symm

theorem unsqueeze_cases (t : Tensor α) (axes : List Int) (hne : axes ≠ []) :
    (Spec.unsqueezeShape t.shape axes = none ∧
      (unsqueezeOp t (vec axes) = .error .axis ∨ unsqueezeOp t (vec axes) = .error .inputInvalid)) ∨
    (∃ s, Spec.unsqueezeShape t.shape axes = some s ∧ unsqueezeOp t (vec axes) = .ok (withShape t s)) := by
  rw [unsqueezeOp_unfold t axes hne]
  unfold Spec.unsqueezeShape Spec.normAxes
  simp only
  by_cases hr : ∀ a ∈ axes, -((t.shape.length + axes.length : Nat) : Int) ≤ a ∧
            a < ((t.shape.length + axes.length : Nat) : Int)
  · rw [if_neg (show ¬¬ _ from fun h => h hr)]
    have hall : (axes.all fun a => decide (-((t.shape.length + axes.length : Nat) : Int) ≤ a ∧
            a < ((t.shape.length + axes.length : Nat) : Int))) = true := by
      simpa using hr
    rw [if_pos hall]
    have hm : ∀ x ∈ (axes.map fun a =>
        if a < 0 then a + ((t.shape.length + axes.length : Nat) : Int) else a),
        0 ≤ x ∧ x < ((t.shape.length + axes.length : Nat) : Int) := by
      intro x hx
      simp only [List.mem_map] at hx
      obtain ⟨a, ha, rfl⟩ := hx
      have := hr a ha
      split <;> omega
    obtain ⟨f1, f2, f3, f4, f5⟩ := sorted_facts _ _ hm
    rw [List.map_map] at f1 f5
    simp only [List.length_map] at f4
    have hfun : (Int.toNat ∘ fun a => if a < 0 then a + ((t.shape.length + axes.length : Nat) : Int) else a) =
        fun a => (if a < 0 then a + ((t.shape.length + axes.length : Nat) : Int) else a).toNat := rfl
    rw [hfun] at f1 f5
    have he := (eraseDups_length_eq_iff _).trans f1.symm
    by_cases hd : hasDuplicatesSorted (sortInts (axes.map fun a =>
        if a < 0 then a + ((t.shape.length + axes.length : Nat) : Int) else a)) = true
    · left
      rw [if_pos hd, if_neg (fun h => by rw [he.mp h] at hd; cases hd)]
      exact ⟨rfl, Or.inr rfl⟩
    · right
      have hd' := Bool.eq_false_iff.mpr hd
      rw [if_neg hd, if_pos (he.mpr hd')]
      refine ⟨_, rfl, ?_⟩
      have hs := f2 hd'
      rw [gReshape_nat, if_pos (insertOnes_prod _ _ _ _ hs (by simp) (by simpa using f3) (by simp only [List.length_map]; omega))]
      rw [insertOnes_eq_go _ _ _ _ _ hs (by simp) (fun j _ => f5 j)]
  · left
    rw [if_pos hr]
    have hall : ¬ (axes.all fun a => decide (-((t.shape.length + axes.length : Nat) : Int) ≤ a ∧
            a < ((t.shape.length + axes.length : Nat) : Int))) = true := by
      simpa using hr
    rw [if_neg hall]
    exact ⟨rfl, Or.inl rfl⟩

/-! ### Reshape -/

/-- the first loop of `processShape` against the `zipIdx` form of the spec -/
theorem copyZeros_eq (cur : List Nat) (req : List Int) (i : Nat) :
    copyZeros cur i req =
      if ((req.zipIdx i).any fun (x : Int × Nat) =>
            match x with
            | (d, j) => decide (d = 0 ∧ j ≥ cur.length)) = true then .error .shape
      else .ok ((req.zipIdx i).map fun (x : Int × Nat) =>
            match x with
            | (d, j) => if d = 0 then ((cur.getD j 0 : Nat) : Int) else d) := by
  induction req generalizing i with
  | nil => simp [copyZeros]
  | cons d rest ih =>
    unfold copyZeros
    rw [ih (i+1)]
    simp only [List.zipIdx_cons, List.any_cons, List.map_cons]
    by_cases hany : ((rest.zipIdx (i+1)).any fun (x : Int × Nat) =>
            match x with
            | (d, j) => decide (d = 0 ∧ j ≥ cur.length)) = true
    · rw [if_pos hany]
      simp only [hany, Bool.or_true, if_true]
      split
      · split <;> rfl
      · rfl
    · rw [if_neg hany]
      have hany' := Bool.eq_false_iff.mpr hany
      simp only [hany', Bool.or_false]
      by_cases hd : d = 0
      · subst hd
        by_cases hi : i < cur.length
        · have h1 : cur[i]? = some cur[i] := by simp [hi]
          have h3 : ¬ i ≥ cur.length := by omega
          simp [h1, h3]
        · have h3 : i ≥ cur.length := by omega
          simp [h3]
      · simp [hd]

/-- `remainingSize /= d` for every `d`, with the "second -1" error -/
def divAll : List Int → Int → Res Int
  | [], acc => .ok acc
  | d :: rest, acc =>
    if d = -1 then .error .shape
    else match goDiv acc d with
      | .error e => .error e
      | .ok q => divAll rest q

theorem divideOthers_after (i j : Nat) (l : List Int) (acc : Int) (h : i < j) :
    divideOthers i j l acc = divAll l acc := by
  induction l generalizing j acc with
  | nil => rfl
  | cons d rest ih =>
    have : ¬ j = i := by omega
    simp only [divideOthers, divAll, if_neg this]
    by_cases hd : d = -1
    · simp [hd]
    · simp only [if_neg hd]
      cases goDiv acc d with
      | error e => rfl
      | ok q => exact ih (j+1) q (by omega)

theorem divideOthers_split (j : Nat) (pre : List Int) (x : Int) (post : List Int) (acc : Int) :
    divideOthers (j + pre.length) j (pre ++ x :: post) acc =
      match divAll pre acc with
      | .error e => .error e
      | .ok q => divAll post q := by
  induction pre generalizing j acc with
  | nil =>
    simp only [List.length_nil, Nat.add_zero, List.nil_append, divAll]
    unfold divideOthers
    rw [if_pos rfl]
    exact divideOthers_after j (j+1) post acc (by omega)
  | cons p pre ih =>
    have hidx : j + (p :: pre).length = (j + 1) + pre.length := by simp only [List.length_cons]; omega
    have : ¬ j = j + 1 + pre.length := by omega
    rw [hidx]
    simp only [List.cons_append, divideOthers, divAll, if_neg this]
    by_cases hd : p = -1
    · simp [hd]
    · simp only [if_neg hd]
      cases goDiv acc p with
      | error e => rfl
      | ok q => exact ih (j+1) q

def Good (c : List Int) : Prop := ∀ d ∈ c, d = -1 ∨ 0 < d
def PosI (c : List Int) : Prop := ∀ d ∈ c, 0 < d

theorem PosI.eq_map {l : List Int} (h : PosI l) :
    l = (l.map Int.toNat).map (fun (d : Nat) => (d : Int)) := by
  rw [List.map_map]
  conv => lhs; rw [← List.map_id l]
  apply List.map_congr_left
  intro d hd
  have := h d hd
  simp only [id, Function.comp]
  omega

theorem Good.posI {l : List Int} (h : Good l) (hn : (-1 : Int) ∉ l) : PosI l := by
  intro d hd
  rcases h d hd with h1 | h1
  · exact absurd (h1 ▸ hd) hn
  · exact h1

theorem prod_toNat_pos {l : List Int} (h : PosI l) : 0 < prod (l.map Int.toNat) := by
  apply prod_pos
  intro n hn
  simp only [List.mem_map] at hn
  obtain ⟨d, hd, rfl⟩ := hn
  have := h d hd
  omega

theorem divAll_good (l : List Int) (a : Nat) (h : Good l) :
    divAll l (a : Int) =
      if (-1 : Int) ∈ l then .error .shape else .ok ((a / prod (l.map Int.toNat) : Nat) : Int) := by
  induction l generalizing a with
  | nil => simp [divAll]
  | cons d rest ih =>
    unfold divAll
    by_cases hd : d = -1
    · simp [hd]
    · have hpos : 0 < d := by
        rcases h d (by simp) with h1 | h1
        · exact absurd h1 hd
        · exact h1
      have hgo : goDiv (a : Int) d = .ok (((a / d.toNat : Nat)) : Int) := by
        unfold goDiv
        rw [if_neg (by omega)]
        have : d = ((d.toNat : Nat) : Int) := by omega
        rw [Int.ofNat_tdiv, ← this]
      rw [if_neg hd, hgo]
      simp only
      rw [ih _ (fun x hx => h x (List.mem_cons_of_mem _ hx))]
      have hmem : ((-1 : Int) ∈ d :: rest) ↔ (-1 : Int) ∈ rest := by
        simp only [List.mem_cons]
        constructor
        · rintro (h1 | h1)
          · exact absurd h1.symm hd
          · exact h1
        · exact Or.inr
      simp only [hmem, List.map_cons, prod_cons, Nat.div_div_eq_div_mul]

theorem split_first {c : List Int} (h : (-1 : Int) ∈ c) :
    ∃ pre post, c = pre ++ (-1) :: post ∧ (-1 : Int) ∉ pre := by
  induction c with
  | nil => cases h
  | cons d c ih =>
    by_cases hd : d = -1
    · exact ⟨[], c, by simp [hd], by simp⟩
    · have hc : (-1 : Int) ∈ c := by
        rcases List.mem_cons.mp h with h1 | h1
        · exact absurd h1.symm hd
        · exact h1
      obtain ⟨pre, post, rfl, hp⟩ := ih hc
      refine ⟨d :: pre, post, rfl, ?_⟩
      intro hm
      rcases List.mem_cons.mp hm with h1 | h1
      · exact hd h1.symm
      · exact hp h1

theorem findIdx_first (pre post : List Int) (h : (-1 : Int) ∉ pre) :
    (pre ++ (-1) :: post).findIdx? (· = -1) = some pre.length := by
  induction pre with
  | nil => simp [List.findIdx?_cons]
  | cons d pre ih =>
    have hd : ¬ d = -1 := fun e => h (by simp [e])
    have hp : (-1 : Int) ∉ pre := fun e => h (List.mem_cons_of_mem _ e)
    simp only [List.cons_append, List.findIdx?_cons, hd, decide_false, Bool.false_eq_true, if_false,
      ih hp, Option.map_some, List.length_cons]

theorem filter_ne_self {l : List Int} (h : (-1 : Int) ∉ l) : l.filter (· ≠ -1) = l := by
  apply List.filter_eq_self.mpr
  intro a ha
  have : a ≠ -1 := fun e => h (e ▸ ha)
  simpa using this

theorem filter_eq_nil {l : List Int} (h : (-1 : Int) ∉ l) : l.filter (· = -1) = [] := by
  apply List.filter_eq_nil_iff.mpr
  intro a ha
  have : a ≠ -1 := fun e => h (e ▸ ha)
  simpa using this

theorem map_infer_posI {l : List Int} (h : (-1 : Int) ∉ l) (q : Nat) :
    (l.map fun d => if d = -1 then q else d.toNat) = l.map Int.toNat := by
  apply List.map_congr_left
  intro a ha
  have : a ≠ -1 := fun e => h (e ▸ ha)
  simp [this]

theorem inferMinusOne_split (T : Nat) (pre post : List Int) (hpre : (-1 : Int) ∉ pre)
    (hg1 : Good pre) (hg2 : Good post) :
    inferMinusOne T (pre ++ (-1) :: post) =
      if (-1 : Int) ∈ post then .error .shape
      else .ok (pre ++ ((T / (prod (pre.map Int.toNat) * prod (post.map Int.toNat)) : Nat) : Int) :: post) := by
  unfold inferMinusOne
  rw [findIdx_first pre post hpre]
  simp only
  have h := divideOthers_split 0 pre (-1) post T
  rw [Nat.zero_add] at h
  rw [h, divAll_good pre T hg1, if_neg hpre]
  simp only
  rw [divAll_good post _ hg2]
  by_cases hp : (-1 : Int) ∈ post
  · simp only [if_pos hp]
  · simp only [if_neg hp, Nat.div_div_eq_div_mul]
    rw [List.set_append_right _ _ (Nat.le_refl _)]
    simp

theorem div_mul_eq_iff (T K : Nat) : T / K * K = T ↔ T % K = 0 := by
  have := Nat.div_add_mod T K
  rw [Nat.mul_comm] at this
  omega

theorem reshape_tail (t : Tensor α) (c : List Int) (hg : Good c) :
    (match inferMinusOne (prod t.shape) c with
      | .error e => .error e
      | .ok s => gReshape t s : Res (Tensor α)) =
    if c.contains (-1) = true then
      if (c.filter (· = -1)).length > 1 then .error .shape
      else if prod t.shape % prod ((c.filter (· ≠ -1)).map Int.toNat) ≠ 0 then .error .shape
      else .ok (withShape t (c.map fun d =>
        if d = -1 then prod t.shape / prod ((c.filter (· ≠ -1)).map Int.toNat) else d.toNat))
    else if prod ((c.filter (· ≠ -1)).map Int.toNat) = prod t.shape then
      .ok (withShape t (c.map Int.toNat)) else .error .shape := by
  by_cases hc : (-1 : Int) ∈ c
  · have hc' : c.contains (-1) = true := by simpa using hc
    rw [if_pos hc']
    obtain ⟨pre, post, rfl, hpre⟩ := split_first hc
    have hg1 : Good pre := fun d hd => hg d (by simp [hd])
    have hg2 : Good post := fun d hd => hg d (by simp [hd])
    rw [inferMinusOne_split _ pre post hpre hg1 hg2]
    have hflen : ((pre ++ (-1) :: post).filter (· = -1)).length = 1 + (post.filter (· = -1)).length := by
      simp [List.filter_append, filter_eq_nil hpre]; omega
    by_cases hp : (-1 : Int) ∈ post
    · have : 0 < (post.filter (· = -1)).length :=
        List.length_pos_of_mem (List.mem_filter.mpr ⟨hp, by simp⟩)
      rw [if_pos hp, if_pos (by omega)]
    · rw [if_neg hp, if_neg (by rw [hflen, filter_eq_nil hp]; simp)]
      have hfne : (pre ++ (-1) :: post).filter (· ≠ -1) = pre ++ post := by
        rw [List.filter_append, List.filter_cons, filter_ne_self hpre, filter_ne_self hp]
        simp
      rw [hfne, List.map_append, prod_append]
      simp only
      have hp1 := (Good.posI hg1 hpre).eq_map
      have hp2 := (Good.posI hg2 hp).eq_map
      generalize hK : prod (pre.map Int.toNat) * prod (post.map Int.toNat) = K
      have hs : pre ++ ((prod t.shape / K : Nat) : Int) :: post =
          (pre.map Int.toNat ++ (prod t.shape / K) :: post.map Int.toNat).map (fun (d : Nat) => (d : Int)) := by
        rw [List.map_append, List.map_cons, ← hp1, ← hp2]
      rw [hs, gReshape_nat]
      have hprod : prod (pre.map Int.toNat ++ (prod t.shape / K) :: post.map Int.toNat) =
          prod t.shape / K * K := by
        rw [prod_append, prod_cons, ← hK, Nat.mul_left_comm]
      rw [hprod]
      have hshape : ((pre ++ (-1) :: post).map fun d => if d = -1 then prod t.shape / K else d.toNat) =
          pre.map Int.toNat ++ (prod t.shape / K) :: post.map Int.toNat := by
        rw [List.map_append, List.map_cons, map_infer_posI hpre, map_infer_posI hp]
        simp
      rw [hshape]
      by_cases hm : prod t.shape % K = 0
      · rw [if_pos ((div_mul_eq_iff _ _).mpr hm), if_neg (by simpa using hm)]
      · rw [if_neg (fun h => hm ((div_mul_eq_iff _ _).mp h)), if_pos hm]
  · have hc' : ¬ c.contains (-1) = true := by simpa using hc
    rw [if_neg hc']
    have hnone : c.findIdx? (· = -1) = none := by
      apply List.findIdx?_eq_none_iff.mpr
      intro a ha
      have : a ≠ -1 := fun e => hc (e ▸ ha)
      simpa using this
    unfold inferMinusOne
    rw [hnone]
    simp only
    rw [filter_ne_self hc]
    have hp := (Good.posI hg hc).eq_map
    conv => lhs; rw [hp]
    rw [gReshape_nat]

/-- the spec's "copied" request (0 ↦ input extent at the same position) -/
def copied (cur : List Nat) (req : List Int) : List Int :=
  req.zipIdx.map fun (x : Int × Nat) =>
    match x with
    | (d, j) => if d = 0 then ((cur.getD j 0 : Nat) : Int) else d

/-- the spec's out-of-range test for 0 entries -/
def zeroOut (cur : List Nat) (req : List Int) : Bool :=
  req.zipIdx.any fun (x : Int × Nat) =>
    match x with
    | (d, j) => decide (d = 0 ∧ j ≥ cur.length)

theorem reshapeOp_vec (t : Tensor α) (req : List Int) (hne : req ≠ []) :
    reshapeOp t (vec req) =
      if zeroOut t.shape req = true then .error .shape
      else match inferMinusOne (prod t.shape) (copied t.shape req) with
        | .error e => .error e
        | .ok s => gReshape t s := by
  unfold reshapeOp
  rw [if_neg (vec_ok hne)]
  unfold processShape
  show (match (match copyZeros t.shape 0 req with
      | .error e => .error e
      | .ok s => inferMinusOne (prod t.shape) s : Res (List Int)) with
    | .error e => .error e
    | .ok s => gReshape t s : Res (Tensor α)) = _
  rw [copyZeros_eq]
  unfold zeroOut copied
  by_cases hz : (req.zipIdx.any fun (x : Int × Nat) =>
      match x with
      | (d, j) => decide (d = 0 ∧ j ≥ t.shape.length)) = true
  · rw [if_pos hz, if_pos hz]
  · rw [if_neg hz, if_neg hz]

theorem copied_good (cur : List Nat) (hpos : Pos cur) (req : List Int) (hge : ∀ d ∈ req, -1 ≤ d)
    (hz : ¬ zeroOut cur req = true) : Good (copied cur req) := by
  intro x hx
  unfold copied at hx
  simp only [List.mem_map] at hx
  obtain ⟨⟨d, j⟩, hm, rfl⟩ := hx
  have hd := List.mem_zipIdx' hm
  have hdm : d ∈ req := by rw [hd.2]; exact List.getElem_mem _
  have hd1 := hge d hdm
  simp only
  by_cases h0 : d = 0
  · rw [if_pos h0]
    right
    have hj : j < cur.length := by
      apply Decidable.byContradiction
      intro hj
      apply hz
      unfold zeroOut
      rw [List.any_eq_true]
      exact ⟨(d, j), hm, by simp [h0]; omega⟩
    have : cur.getD j 0 = cur[j] := by simp [List.getD, hj]
    rw [this]
    have := hpos cur[j] (List.getElem_mem _)
    omega
  · rw [if_neg h0]; omega

theorem copied_count (cur : List Nat) (req : List Int) :
    ((copied cur req).filter (· = -1)).length = (req.filter (· = -1)).length := by
  unfold copied
  conv => rhs; rw [← List.zipIdx_map_fst 0 req]
  rw [List.filter_map, List.filter_map, List.length_map, List.length_map]
  congr 1
  apply List.filter_congr
  rintro ⟨d, j⟩ _
  simp only [Function.comp]
  by_cases h0 : d = 0
  · subst h0; simp
  · simp [h0]

theorem mem_copied {cur : List Nat} {req : List Int} {d : Int} (hd : d ∈ req) (h0 : d ≠ 0) :
    d ∈ copied cur req := by
  obtain ⟨j, hj, rfl⟩ := List.getElem_of_mem hd
  unfold copied
  rw [List.mem_map]
  refine ⟨(req[j], j), List.mk_mem_zipIdx_iff_getElem?.mpr (by simp [hj]), ?_⟩
  simp [h0]

theorem inferMinusOne_keeps {T : Nat} {c s : List Int} (h : inferMinusOne T c = .ok s)
    {d : Int} (hd : d ∈ c) (hlt : d < -1) : d ∈ s := by
  unfold inferMinusOne at h
  split at h
  · cases h; exact hd
  · rename_i i hi
    split at h
    · cases h
    · cases h
      rename_i r _
      obtain ⟨hil, hpi, _⟩ := List.findIdx?_eq_some_iff_getElem.mp hi
      obtain ⟨k, hk, rfl⟩ := List.getElem_of_mem hd
      have hki : i ≠ k := by
        intro e; subst e
        simp at hpi
        omega
      have : (c.set i r)[k]'(by simpa using hk) = c[k] := List.getElem_set_ne hki _
      rw [← this]
      exact List.getElem_mem _

/-- a request with an entry below -1 never yields a tensor -/
theorem reshape_lt_not_ok (t : Tensor α) (req : List Int) (hne : req ≠ [])
    (hlt : (req.any fun x => decide (x < -1)) = true) (t' : Tensor α) :
    reshapeOp t (vec req) ≠ .ok t' := by
  rw [reshapeOp_vec t req hne]
  rw [List.any_eq_true] at hlt
  obtain ⟨d, hd, hdl⟩ := hlt
  have hdl : d < -1 := by simpa using hdl
  intro h
  split at h
  · cases h
  · split at h
    · cases h
    · rename_i s hs
      have h1 := inferMinusOne_keeps hs (mem_copied (cur := t.shape) hd (by omega)) hdl
      have := gReshape_nonneg h d h1
      omega

/-- requests with all entries ≥ -1 on positive extents: the complete outcome -/
theorem reshapeOp_char (t : Tensor α) (req : List Int) (hpos : Pos t.shape) (hne : req ≠ [])
    (hge : ∀ d ∈ req, -1 ≤ d) :
    reshapeOp t (vec req) =
      if zeroOut t.shape req = true then .error .shape
      else if (copied t.shape req).contains (-1) = true then
        if ((copied t.shape req).filter (· = -1)).length > 1 then .error .shape
        else if prod t.shape % prod (((copied t.shape req).filter (· ≠ -1)).map Int.toNat) ≠ 0 then
          .error .shape
        else .ok (withShape t ((copied t.shape req).map fun d =>
          if d = -1 then prod t.shape / prod (((copied t.shape req).filter (· ≠ -1)).map Int.toNat)
          else d.toNat))
      else if prod (((copied t.shape req).filter (· ≠ -1)).map Int.toNat) = prod t.shape then
        .ok (withShape t ((copied t.shape req).map Int.toNat)) else .error .shape := by
  rw [reshapeOp_vec t req hne]
  by_cases hz : zeroOut t.shape req = true
  · rw [if_pos hz, if_pos hz]
  · rw [if_neg hz, if_neg hz]
    exact reshape_tail t _ (copied_good _ hpos req hge hz)

theorem reshape_no_panic (t : Tensor α) (req : List Int) (hpos : Pos t.shape) (hne : req ≠ [])
    (hge : ∀ d ∈ req, -1 ≤ d) : reshapeOp t (vec req) ≠ .error .panic := by
  rw [reshapeOp_char t req hpos hne hge]
  repeat' split
  all_goals (intro h; cases h)

theorem reshapeShape_eq (cur : List Nat) (req : List Int) :
    Spec.reshapeShape cur req =
      if (req.any fun x => decide (x < -1)) = true then none
      else if (req.filter (· = -1)).length > 1 then none
      else if zeroOut cur req = true then none
      else if (copied cur req).contains (-1) = true then
        if prod (((copied cur req).filter (· ≠ -1)).map Int.toNat) = 0 ∨
            prod cur % prod (((copied cur req).filter (· ≠ -1)).map Int.toNat) ≠ 0 then none
        else some ((copied cur req).map fun d =>
          if d = -1 then prod cur / prod (((copied cur req).filter (· ≠ -1)).map Int.toNat) else d.toNat)
      else if prod (((copied cur req).filter (· ≠ -1)).map Int.toNat) = prod cur then
        some ((copied cur req).map Int.toNat) else none := rfl

theorem known_ne_zero {c : List Int} (hg : Good c) :
    prod ((c.filter (· ≠ -1)).map Int.toNat) ≠ 0 := by
  have : PosI (c.filter (· ≠ -1)) := by
    intro d hd
    rw [List.mem_filter] at hd
    rcases hg d hd.1 with h | h
    · simp [h] at hd
    · exact h
  have := prod_toNat_pos this
  omega

theorem reshape_eq_spec (t : Tensor α) (req : List Int) (hpos : Pos t.shape) (hne : req ≠ []) :
    (reshapeOp t (vec req)).toOption = (Spec.reshapeShape t.shape req).map (withShape t) := by
  rw [reshapeShape_eq]
  by_cases hlt : (req.any fun x => decide (x < -1)) = true
  · rw [if_pos hlt]
    cases h : reshapeOp t (vec req) with
    | error e => rfl
    | ok t' => exact absurd h (reshape_lt_not_ok t req hne hlt t')
  · rw [if_neg hlt]
    have hge : ∀ d ∈ req, -1 ≤ d := by
      intro d hd
      apply Decidable.byContradiction
      intro hn
      apply hlt
      rw [List.any_eq_true]
      exact ⟨d, hd, by simp; omega⟩
    rw [reshapeOp_char t req hpos hne hge, ← copied_count t.shape req]
    by_cases hz : zeroOut t.shape req = true
    · simp only [if_pos hz]
      split <;> rfl
    · simp only [if_neg hz]
      have hg := copied_good _ hpos req hge hz
      have hk := known_ne_zero hg
      by_cases hc : (copied t.shape req).contains (-1) = true
      · simp only [if_pos hc]
        by_cases hcnt : ((copied t.shape req).filter (· = -1)).length > 1
        · simp only [if_pos hcnt]; rfl
        · simp only [if_neg hcnt]
          by_cases hm : prod t.shape % prod (((copied t.shape req).filter (· ≠ -1)).map Int.toNat) ≠ 0
          · simp only [if_pos hm, if_pos (Or.inr hm :
              prod (((copied t.shape req).filter (· ≠ -1)).map Int.toNat) = 0 ∨ _)]; rfl
          · have hor : ¬ (prod (((copied t.shape req).filter (· ≠ -1)).map Int.toNat) = 0 ∨
                prod t.shape % prod (((copied t.shape req).filter (· ≠ -1)).map Int.toNat) ≠ 0) :=
              fun h => h.elim hk hm
            simp only [if_neg hm, if_neg hor]; rfl
      · simp only [if_neg hc]
        have hcnt : ¬ ((copied t.shape req).filter (· = -1)).length > 1 := by
          have hn : (-1 : Int) ∉ copied t.shape req := by simpa using hc
          rw [filter_eq_nil hn]; simp
        simp only [if_neg hcnt]
        split <;> rfl

/-! ### element order -/

theorem reshapeOp_data {t t' : Tensor α} {s : Tensor Int} (h : reshapeOp t s = .ok t') :
    t'.data = t.data := by
  unfold reshapeOp at h
  split at h
  · cases h
  · split at h
    · cases h
    · exact gReshape_data h

theorem flattenOp_data {t t' : Tensor α} {a : Int} (h : flattenOp t a = .ok t') :
    t'.data = t.data := by
  unfold flattenOp at h
  simp only at h
  repeat' split at h
  all_goals first | exact gReshape_data h | cases h

theorem squeezeOp_data {t t' : Tensor α} {a : Option (Tensor Int)} (h : squeezeOp t a = .ok t') :
    t'.data = t.data := by
  unfold squeezeOp at h
  simp only at h
  split at h
  · exact gReshape_data h
  · split at h
    · cases h
    · split at h
      · cases h
      · exact gReshape_data h

theorem unsqueezeOp_data {t t' : Tensor α} {a : Tensor Int} (h : unsqueezeOp t a = .ok t') :
    t'.data = t.data := by
  unfold unsqueezeOp at h
  simp only at h
  split at h
  · cases h
  · split at h
    · cases h
    · split at h
      · cases h
      · split at h
        · cases h
        · exact gReshape_data h

theorem unsqueeze_eq_spec (t : Tensor α) (axes : List Int) (hne : axes ≠ []) :
    (unsqueezeOp t (vec axes)).toOption = (Spec.unsqueezeShape t.shape axes).map (withShape t) := by
  rcases unsqueeze_cases t axes hne with ⟨hs, h | h⟩ | ⟨s, hs, h⟩ <;> rw [hs, h] <;> rfl

theorem unsqueeze_no_panic (t : Tensor α) (axes : List Int) (hne : axes ≠ []) :
    unsqueezeOp t (vec axes) ≠ .error .panic := by
  rcases unsqueeze_cases t axes hne with ⟨_, h | h⟩ | ⟨s, _, h⟩ <;> rw [h] <;> intro h' <;> cases h'

end Gonnx.Proofs.Shape
