import Gonnx.Ops.Binary
import Gonnx.Spec.Binary
import Gonnx.Proofs.Broadcast
/-
Helper lemmas for C03: the binary-operator model equals the ONNX spec.
-/
namespace Gonnx.Proofs
open Gonnx Gonnx.Spec
variable {α β : Type} [Inhabited α] [Inhabited β]

/-- two tensors are observably equal: same shape, dense, same element at every in-range index -/
def Equiv (s t : Tensor β) : Prop :=
  s.shape = t.shape ∧ s.WF ∧ t.WF ∧ ∀ idx, InRange idx s.shape → s.get idx = t.get idx

/-! ### helpers -/

omit [Inhabited α] [Inhabited β] in
theorem getD_zipWith (f : α → α → β) (a b : List α) (i : Nat) (ha : i < a.length)
    (hb : i < b.length) (d : β) (da db : α) :
    (List.zipWith f a b).getD i d = f (a.getD i da) (b.getD i db) := by
  simp [List.getD, List.getElem?_zipWith, List.getElem?_eq_getElem ha, List.getElem?_eq_getElem hb]

omit [Inhabited α] [Inhabited β] in
theorem mapM_zipWith_total (f : α → α → Option β) (g : α → α → β)
    (hfg : ∀ a b, f a b = some (g a b)) (a b : List α) :
    (List.zipWith f a b).mapM id = some (List.zipWith g a b) := by
  induction a generalizing b with
  | nil => simp
  | cons x a ih =>
    cases b with
    | nil => simp
    | cons y b => simp [List.mapM_cons, hfg, ih]

omit [Inhabited α] [Inhabited β] in
theorem zipSameM_total (f : α → α → Option β) (g : α → α → β)
    (hfg : ∀ a b, f a b = some (g a b)) (A B : Tensor α) :
    zipSameM f A B = zipSame g A B := by
  unfold zipSameM zipSame
  rw [mapM_zipWith_total f g hfg]

omit [Inhabited β] in
theorem applyBinaryM_total (f : α → α → Option β) (g : α → α → β)
    (hfg : ∀ a b, f a b = some (g a b)) (A B : Tensor α) :
    applyBinaryM f A B = applyBinary g .multi A B := by
  unfold applyBinaryM applyBinary
  cases multidirBroadcast A B with
  | error e => rfl
  | ok v => obtain ⟨A', B'⟩ := v; exact zipSameM_total f g hfg A' B'

theorem repeatMulti_same (s : List Nat) (k : Nat) (X Y : Tensor α) :
    repeatMulti s s k X Y = .ok (X, Y) := by
  induction k with
  | zero => rfl
  | succ k ih => simpa [repeatMulti] using ih

/-- broadcasting two tensors of the same shape is the identity -/
theorem multidir_same (A B : Tensor α) (h : A.shape = B.shape) :
    multidirBroadcast A B = .ok (A, B) := by
  obtain ⟨sA, dA⟩ := A
  obtain ⟨sB, dB⟩ := B
  simp only at h
  subst h
  rw [multidir_eq]
  simp only [Nat.max_self, padShape_self]
  exact repeatMulti_same _ _ _ _

/-- both results of a successful broadcast have the same shape (no positivity needed) -/
theorem multidir_shape_eq (A B A' B' : Tensor α) (h : multidirBroadcast A B = .ok (A', B')) :
    A'.shape = B'.shape := by
  have hc : Compatible A.shape B.shape = true := by
    rw [← multidir_ok_iff, h]; rfl
  rw [compatible_iff] at hc
  rw [multidir_eq] at h
  have hl1 := length_padShape (max A.shape.length B.shape.length) A.shape (Nat.le_max_left _ _)
  have hl2 := length_padShape (max A.shape.length B.shape.length) B.shape (Nat.le_max_right _ _)
  obtain ⟨h1, h2⟩ := repeatMulti_ok _ _ _ _ _ _ _ h
  obtain ⟨a1, a2, _⟩ := repA_full (padShape (max A.shape.length B.shape.length) A.shape)
    (padShape (max A.shape.length B.shape.length) B.shape) A.data _ hl1
  obtain ⟨b1, b2, _⟩ := repA_full (padShape (max A.shape.length B.shape.length) B.shape)
    (padShape (max A.shape.length B.shape.length) A.shape) B.data _ hl2
  rw [h1, h2]
  apply ext_dim (by rw [a1, b1])
  intro j hj
  rw [a1] at hj
  rw [a2 j hj, b2 j hj]
  have := (dimCompat_iff _ _).1 (hc j hj)
  split <;> split <;> omega

omit [Inhabited β] in
theorem applyBinary_ok (f : α → α → β) (A B A' B' : Tensor α)
    (h : multidirBroadcast A B = .ok (A', B')) :
    applyBinary f .multi A B = .ok ⟨A'.shape, List.zipWith f A'.data B'.data⟩ := by
  unfold applyBinary
  simp only [h]
  unfold zipSame
  rw [if_pos (multidir_shape_eq A B A' B' h)]

theorem applyBooleanOp_ok (f : α → α → α) (A B A' B' : Tensor α)
    (h : multidirBroadcast A B = .ok (A', B')) :
    applyBooleanOp f A B = .ok (ofFn A'.shape fun idx => f (A'.get idx) (B'.get idx)) := by
  unfold applyBooleanOp
  simp only [h]
  unfold applyBoolean
  simp only [multidir_same A' B' (multidir_shape_eq A B A' B' h)]

omit [Inhabited α] in
theorem isOk_cases {γ : Type} (r : Res γ) : (∃ v, r = .ok v) ∨ (∃ e, r = .error e) := by
  cases r with
  | ok v => exact .inl ⟨v, rfl⟩
  | error e => exact .inr ⟨e, rfl⟩

/-- the kernel applied to the two broadcast operands is the spec tensor -/
theorem zip_equiv_spec (f : α → α → β) (A B A' B' : Tensor α) (hA : Pos A.shape) (hB : Pos B.shape)
    (hAW : A.WF) (hBW : B.WF) (h : multidirBroadcast A B = .ok (A', B')) :
    Equiv (⟨A'.shape, List.zipWith f A'.data B'.data⟩ : Tensor β)
      (ofFn (bshape A.shape B.shape) fun idx => f (A.get (pin A.shape idx)) (B.get (pin B.shape idx))) := by
  obtain ⟨sA, sB⟩ := multidir_shape A B A' B' hA hB h
  obtain ⟨wA, wB⟩ := multidir_WF A B A' B' hAW hBW h
  unfold Tensor.WF at wA wB
  refine ⟨sA, ?_, ofFn_WF _ _, ?_⟩
  · simp only [Tensor.WF, List.length_zipWith, wA, wB, sA, sB, Nat.min_self]
  · intro idx hidx
    simp only at hidx
    have hidx' : InRange idx (bshape A.shape B.shape) := by rw [← sA]; exact hidx
    rw [get_ofFn _ _ _ hidx']
    obtain ⟨gA, gB⟩ := multidir_get A B A' B' hA hB h idx hidx'
    rw [← gA, ← gB]
    have hlt := ravel_lt _ _ hidx
    simp only [Tensor.get]
    rw [getD_zipWith f _ _ _ (by rw [wA]; exact hlt) (by rw [wB, sB, ← sA]; exact hlt) default
      default default, sB, ← sA]

/-- the coordinate-iterator result on the two broadcast operands is the spec tensor -/
theorem ofFn_equiv_spec (f : α → α → α) (A B A' B' : Tensor α) (hA : Pos A.shape) (hB : Pos B.shape)
    (h : multidirBroadcast A B = .ok (A', B')) :
    Equiv (ofFn A'.shape fun idx => f (A'.get idx) (B'.get idx))
      (ofFn (bshape A.shape B.shape) fun idx => f (A.get (pin A.shape idx)) (B.get (pin B.shape idx))) := by
  obtain ⟨sA, sB⟩ := multidir_shape A B A' B' hA hB h
  refine ⟨sA, ofFn_WF _ _, ofFn_WF _ _, ?_⟩
  intro idx hidx
  simp only [ofFn_shape] at hidx
  have hidx' : InRange idx (bshape A.shape B.shape) := by rw [← sA]; exact hidx
  rw [get_ofFn _ _ _ hidx, get_ofFn _ _ _ hidx']
  obtain ⟨gA, gB⟩ := multidir_get A B A' B' hA hB h idx hidx'
  rw [gA, gB]

omit [Inhabited β] in
theorem spec_of_ok (f : α → α → β) (A B A' B' : Tensor α)
    (h : multidirBroadcast A B = .ok (A', B')) :
    Spec.binary f A B = some (ofFn (bshape A.shape B.shape)
      fun idx => f (A.get (pin A.shape idx)) (B.get (pin B.shape idx))) := by
  have hc : Compatible A.shape B.shape = true := by
    rw [← multidir_ok_iff, h]; rfl
  unfold Spec.binary
  rw [if_pos hc]

/-! ### the theorems -/

-- `[Inhabited β]` is part of the fixed signature (section variable) although this proof does not use it
set_option linter.unusedSectionVars false in
theorem binary_ok_iff (f : α → α → β) (A B : Tensor α) :
    (applyBinary f .multi A B).isOk = Compatible A.shape B.shape := by
  rw [← multidir_ok_iff]
  rcases isOk_cases (multidirBroadcast A B) with ⟨⟨A', B'⟩, h⟩ | ⟨e, h⟩
  · rw [applyBinary_ok f A B A' B' h, h]; rfl
  · unfold applyBinary; simp only [h]; rfl

-- `[Inhabited β]` is part of the fixed signature (section variable) although this proof does not use it
set_option linter.unusedSectionVars false in
theorem binary_error (f : α → α → β) (A B : Tensor α) (h : Compatible A.shape B.shape = false) :
    applyBinary f .multi A B = .error .broadcast := by
  unfold applyBinary
  simp only [multidir_error A B h]

/-- model = spec for the arithmetic / comparison path -/
theorem binary_eq_spec (f : α → α → β) (A B : Tensor α) (hA : Pos A.shape) (hB : Pos B.shape)
    (hAW : A.WF) (hBW : B.WF) (t : Tensor β) (h : applyBinary f .multi A B = .ok t) :
    ∃ s, Spec.binary f A B = some s ∧ Equiv t s := by
  rcases isOk_cases (multidirBroadcast A B) with ⟨⟨A', B'⟩, hm⟩ | ⟨e, hm⟩
  · rw [applyBinary_ok f A B A' B' hm] at h
    cases h
    exact ⟨_, spec_of_ok f A B A' B' hm, zip_equiv_spec f A B A' B' hA hB hAW hBW hm⟩
  · unfold applyBinary at h; simp only [hm] at h; cases h

/-- model = spec for the boolean coordinate-iterator path (And / Or / Xor) -/
theorem boolean_ok_iff (f : α → α → α) (A B : Tensor α) :
    (applyBooleanOp f A B).isOk = Compatible A.shape B.shape := by
  rw [← multidir_ok_iff]
  rcases isOk_cases (multidirBroadcast A B) with ⟨⟨A', B'⟩, h⟩ | ⟨e, h⟩
  · rw [applyBooleanOp_ok f A B A' B' h, h]; rfl
  · unfold applyBooleanOp; simp only [h]; rfl

-- `hAW`, `hBW` are part of the fixed statement; the coordinate-iterator result is dense by construction
set_option linter.unusedVariables false in
theorem boolean_eq_spec (f : α → α → α) (A B : Tensor α) (hA : Pos A.shape) (hB : Pos B.shape)
    (hAW : A.WF) (hBW : B.WF) (t : Tensor α) (h : applyBooleanOp f A B = .ok t) :
    ∃ s, Spec.binary f A B = some s ∧ Equiv t s := by
  rcases isOk_cases (multidirBroadcast A B) with ⟨⟨A', B'⟩, hm⟩ | ⟨e, hm⟩
  · rw [applyBooleanOp_ok f A B A' B' hm] at h
    cases h
    exact ⟨_, spec_of_ok f A B A' B' hm, ofFn_equiv_spec f A B A' B' hA hB hm⟩
  · unfold applyBooleanOp at h; simp only [hm] at h; cases h

/-- fallible kernel (integer division): if the kernel is defined on every pair of broadcast
elements the result is the spec value; if the shapes are compatible and it is undefined somewhere
the operator reports an error (never a tensor) -/
theorem binaryM_eq_spec (f : α → α → Option β) (g : α → α → β) (A B : Tensor α) (hA : Pos A.shape) (hB : Pos B.shape)
    (hAW : A.WF) (hBW : B.WF) (hfg : ∀ a b, f a b = some (g a b)) (t : Tensor β)
    (h : applyBinaryM f A B = .ok t) :
    ∃ s, Spec.binary g A B = some s ∧ Equiv t s := by
  rw [applyBinaryM_total f g hfg] at h
  exact binary_eq_spec g A B hA hB hAW hBW t h

theorem binaryM_ok_of_total (f : α → α → Option β) (g : α → α → β) (A B : Tensor α)
    (hfg : ∀ a b, f a b = some (g a b)) :
    (applyBinaryM f A B).isOk = Compatible A.shape B.shape := by
  rw [applyBinaryM_total f g hfg]
  exact binary_ok_iff g A B

-- `[Inhabited β]` is part of the fixed signature (section variable) although this proof does not use it
set_option linter.unusedSectionVars false in
theorem binaryM_error_incompatible (f : α → α → Option β) (A B : Tensor α)
    (h : Compatible A.shape B.shape = false) : applyBinaryM f A B = .error .broadcast := by
  unfold applyBinaryM
  simp only [multidir_error A B h]

end Gonnx.Proofs
