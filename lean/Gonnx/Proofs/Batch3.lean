import Gonnx.Proofs.Batch2
/-
Batch independence of an elementwise binary operator whose two operands both carry the batch on axis 0.
-/
namespace Gonnx.Proofs.Batch3
open Gonnx Gonnx.Spec Gonnx.Proofs Gonnx.Proofs.Batch Gonnx.Proofs.Batch2
variable {α β : Type} [Inhabited α] [Inhabited β]

/-! ### shapes of two samples of the same rank -/

theorem padShape_of_len (s w : List Nat) (h : w.length = s.length) : padShape s.length w = w := by
  rw [← h, padShape_self]

/-- compatibility of two batches of the same rank gives compatibility of their samples -/
theorem compat_sample2 (s w : List Nat) (h : w.length = s.length) (hs : 0 < s.length)
    (hc : Compatible s w = true) : Compatible (s.set 0 1) (w.set 0 1) = true := by
  rw [compatible_iff' _ _ (by omega), padShape_of_len _ _ h] at hc
  rw [compatible_iff' _ _ (by simp only [List.length_set]; omega),
    padShape_of_len _ _ (by simp only [List.length_set]; exact h)]
  intro j hj
  simp only [List.length_set] at hj
  rw [dim_set_zero _ _ _ hs, dim_set_zero _ _ _ (by omega)]
  split
  · rw [dimCompat_iff]; omega
  · exact hc j hj

/-- the broadcast shape of two samples is the broadcast shape of the batches with leading extent 1 -/
theorem bshape_sample2 (s w : List Nat) (h : w.length = s.length) (hs : 0 < s.length) :
    bshape (s.set 0 1) (w.set 0 1) = (bshape s w).set 0 1 := by
  have hl : (bshape s w).length = s.length := by rw [length_bshape]; omega
  apply ext_dim
  · rw [length_bshape, List.length_set, List.length_set, List.length_set, hl]; omega
  · intro j hj
    rw [length_bshape, List.length_set, List.length_set] at hj
    have hj' : j < s.length := by omega
    rw [dim_bshape _ _ (by simp only [List.length_set]; omega) _ (by simpa using hj'),
      padShape_of_len _ _ (by simp only [List.length_set]; exact h),
      dim_set_zero _ _ _ hs, dim_set_zero _ _ _ (by omega),
      dim_set_zero _ _ _ (by rw [hl]; exact hs), dim_bshape _ _ (by omega) _ hj',
      padShape_of_len _ _ h]
    split
    · rfl
    · rfl

/-! ### the theorem -/

theorem binary_both_batched_pointwise (f : α → α → β) :
    ∀ X Z Y, Good X → Good Z → X.shape.length = Z.shape.length → 0 < X.shape.length →
      dim X.shape 0 = dim Z.shape 0 → applyBinary f .multi X Z = .ok Y →
      Good Y ∧ 0 < Y.shape.length ∧ dim Y.shape 0 = dim X.shape 0 ∧
      ∀ n, n < dim X.shape 0 →
        applyBinary f .multi (takeBatch 0 n X) (takeBatch 0 n Z) = .ok (takeBatch 0 n Y) := by
  intro X Z Y hX hZ hlen hr hd hY
  have hle : Z.shape.length ≤ X.shape.length := by omega
  have hXp : Pos X.shape := hX.2
  have hZp : Pos Z.shape := hZ.2
  have hpad : padShape X.shape.length Z.shape = Z.shape := padShape_of_len _ _ hlen.symm
  obtain ⟨s, hs, hYs⟩ := binary_eq_spec f X Z hX.2 hZ.2 hX.1 hZ.1 Y hY
  have hc : Compatible X.shape Z.shape = true := by rw [← binary_ok_iff f X Z, hY]; rfl
  unfold Spec.binary at hs
  rw [if_pos hc] at hs
  cases hs
  have hYshape : Y.shape = bshape X.shape Z.shape := hYs.1
  have hlenB : (bshape X.shape Z.shape).length = X.shape.length := by rw [length_bshape]; omega
  have hcj := (compatible_iff' _ _ hle).1 hc
  rw [hpad] at hcj
  have hdimB : ∀ j, j < X.shape.length →
      dim (bshape X.shape Z.shape) j = max (dim X.shape j) (dim Z.shape j) := by
    intro j hj; rw [dim_bshape _ _ hle _ hj, hpad]
  have hdimY : dim Y.shape 0 = dim X.shape 0 := by
    rw [hYshape, hdimB 0 hr, ← hd]; exact Nat.max_self _
  refine ⟨⟨hYs.2.1, ?_⟩, by rw [hYshape, hlenB]; exact hr, hdimY, ?_⟩
  · apply pos_of_dim
    intro j hj
    rw [hYshape, hlenB] at hj
    rw [hYshape, hdimB j hj]
    have := Pos_dim hXp hj
    omega
  · intro n hn
    have hnZ : n < dim Z.shape 0 := by rw [← hd]; exact hn
    have hXn := takeBatch_good 0 n X hX
    have hZn := takeBatch_good 0 n Z hZ
    have hshX : (takeBatch 0 n X).shape = X.shape.set 0 1 := rfl
    have hshZ : (takeBatch 0 n Z).shape = Z.shape.set 0 1 := rfl
    have hc' : Compatible (takeBatch 0 n X).shape (takeBatch 0 n Z).shape = true := by
      rw [hshX, hshZ]; exact compat_sample2 _ _ hlen.symm hr hc
    have hok' := binary_ok_iff f (takeBatch 0 n X) (takeBatch 0 n Z)
    rw [hc'] at hok'
    have ⟨t', ht'⟩ : ∃ t', applyBinary f .multi (takeBatch 0 n X) (takeBatch 0 n Z) = .ok t' := by
      rcases isOk_cases (applyBinary f .multi (takeBatch 0 n X) (takeBatch 0 n Z)) with h | ⟨e, he⟩
      · exact h
      · rw [he] at hok'; simp [Res.isOk] at hok'
    obtain ⟨s', hs', hts'⟩ := binary_eq_spec f _ _ hXn.1.2 hZn.1.2 hXn.1.1 hZn.1.1 t' ht'
    unfold Spec.binary at hs'
    rw [if_pos hc', hshX, hshZ, bshape_sample2 _ _ hlen.symm hr] at hs'
    cases hs'
    rw [ht']
    congr 1
    apply eq_takeBatch_of_equiv
    have hshape' : t'.shape = (bshape X.shape Z.shape).set 0 1 := hts'.1
    refine ⟨by rw [hshape']; simp [takeBatch, hYshape], hts'.2.1, ofFn_WF _ _, ?_⟩
    intro idx hidx
    rw [hshape'] at hidx
    have hidxY : InRange idx (Y.shape.set 0 1) := by rw [hYshape]; exact hidx
    have hnY : n < dim Y.shape 0 := by rw [hdimY]; exact hn
    have hset := InRange_set _ _ 0 n hidxY hnY
    rw [hts'.2.2.2 idx (by rw [hshape']; exact hidx), get_ofFn _ _ _ hidx,
      takeBatch_get _ _ _ _ hidxY, hYs.2.2.2 _ hset, get_ofFn _ _ _ (by rw [← hYshape]; exact hset)]
    have hil : idx.length = X.shape.length := by
      rw [InRange_length hidx, List.length_set, hlenB]
    have hprX : InRange (pin X.shape (idx.set 0 n)) X.shape := by
      apply MatMul.pin_InRange (bshape X.shape Z.shape) X.shape _ (by rw [hlenB]; exact Nat.le_refl _)
      · intro j hj
        rw [hlenB] at hj
        rw [hlenB, padShape_self, hdimB j hj]
        have := (dimCompat_iff _ _).1 (hcj j hj)
        have := Pos_dim hXp hj
        have := Pos_dim hZp (j := j) (by omega)
        omega
      · rw [← hYshape]; exact hset
    have hprZ : InRange (pin Z.shape (idx.set 0 n)) Z.shape := by
      apply MatMul.pin_InRange (bshape X.shape Z.shape) Z.shape _ (by rw [hlenB]; exact hle)
      · intro j hj
        rw [hlenB] at hj
        rw [hlenB, hpad, hdimB j hj]
        have := (dimCompat_iff _ _).1 (hcj j hj)
        have := Pos_dim hXp hj
        have := Pos_dim hZp (j := j) (by omega)
        omega
      · rw [← hYshape]; exact hset
    rw [takeBatch_pin X idx n hn hil hprX, takeBatch_pin Z idx n hnZ (by omega) hprZ]

end Gonnx.Proofs.Batch3
