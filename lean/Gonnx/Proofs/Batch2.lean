import Gonnx.Graph.Batch
import Gonnx.Ops.Conv
import Gonnx.Ops.Recurrent
import Gonnx.Ops.Shape
import Gonnx.Ops.Binary
import Gonnx.Spec.Conv
import Gonnx.Spec.Recurrent
import Gonnx.Proofs.Batch
import Gonnx.Proofs.Conv
import Gonnx.Proofs.Recurrent
import Gonnx.Proofs.MatMul
import Gonnx.Proofs.Binary
/-
C16, second part: the weighted operators act per sample (helper lemmas for Theorems/C16b.lean).
This file: general lemmas, the elementwise operators against a weight, Gemm / LinearRegressor /
Scaler, Flatten. Conv: Proofs/Batch2Conv.lean. RNN / GRU / LSTM: Proofs/Batch2Rec.lean.
-/
namespace Gonnx.Proofs.Batch2
open Gonnx Gonnx.Spec Gonnx.Proofs Gonnx.Proofs.Batch
variable {α β : Type} [Inhabited α] [Inhabited β]

/-! ### `Equiv` is an equivalence, and `takeBatch` respects it -/

omit [Inhabited α] in
theorem equiv_refl (a : Tensor β) (h : a.WF) : Equiv a a := ⟨rfl, h, h, fun _ _ => rfl⟩

omit [Inhabited α] in
theorem equiv_symm {a b : Tensor β} (h : Equiv a b) : Equiv b a :=
  ⟨h.1.symm, h.2.2.1, h.2.1, fun idx hidx => (h.2.2.2 idx (by rw [h.1]; exact hidx)).symm⟩

omit [Inhabited α] in
theorem equiv_trans {a b c : Tensor β} (h1 : Equiv a b) (h2 : Equiv b c) : Equiv a c :=
  ⟨h1.1.trans h2.1, h1.2.1, h2.2.2.1, fun idx hidx =>
    (h1.2.2.2 idx hidx).trans (h2.2.2.2 idx (by rw [← h1.1]; exact hidx))⟩

omit [Inhabited α] in
theorem equiv_takeBatch {a b : Tensor β} (ax n : Nat) (h : Equiv a b) (hn : n < dim a.shape ax) :
    Equiv (takeBatch ax n a) (takeBatch ax n b) := by
  refine ⟨by simp [takeBatch, h.1], ofFn_WF _ _, ofFn_WF _ _, ?_⟩
  intro idx hidx
  have hidx' : InRange idx (a.shape.set ax 1) := hidx
  rw [takeBatch_get _ _ _ _ hidx', takeBatch_get _ _ _ _ (by rw [← h.1]; exact hidx')]
  exact h.2.2.2 _ (InRange_set _ _ _ _ hidx' hn)

omit [Inhabited α] in
/-- an operator result that is observably the slice of the batch result *is* the slice -/
theorem eq_takeBatch_of_equiv {t y : Tensor β} (ax n : Nat) (h : Equiv t (takeBatch ax n y)) :
    t = takeBatch ax n y := tensor_ext _ _ h

omit [Inhabited α] [Inhabited β] in
theorem Good_of_shape {a : Tensor β} (s : List Nat) (hs : a.shape = s) (hW : a.WF) (hp : ∀ d ∈ s, 0 < d) :
    Good a := ⟨hW, by rw [hs]; exact hp⟩

theorem dim_set_zero (s : List Nat) (v j : Nat) (hs : 0 < s.length) :
    dim (s.set 0 v) j = if j = 0 then v else dim s j := by
  cases s with
  | nil => simp at hs
  | cons d rest =>
    cases j with
    | zero => simp [dim]
    | succ j => simp [dim]

/-! ### the source index of a weight that does not carry the batch -/

/-- a weight of lower rank, or of the same rank with leading extent 1, is read at the same position
whatever the batch coordinate -/
theorem pin_set0 (s idx : List Nat) (n : Nat)
    (h : s.length < idx.length ∨ (s.length = idx.length ∧ dim s 0 = 1)) :
    pin s (idx.set 0 n) = pin s idx := by
  unfold pin
  rcases h with h | ⟨h1, h2⟩
  · rw [List.length_set, List.drop_set_of_lt (by omega)]
  · cases s with
    | nil => simp [dim] at h2
    | cons d ws =>
      cases idx with
      | nil => simp at h1
      | cons i is =>
        simp only [dim, List.getD_cons_zero] at h2
        subst h2
        simp [h1]

/-- the batch operand: reading the sample through its own pinned index is reading the batch at the
pinned index of the batch coordinate -/
theorem takeBatch_pin (X : Tensor α) (idx : List Nat) (n : Nat) (hn : n < dim X.shape 0)
    (hl : idx.length = X.shape.length) (hr : InRange (pin X.shape (idx.set 0 n)) X.shape) :
    (takeBatch 0 n X).get (pin (X.shape.set 0 1) idx) = X.get (pin X.shape (idx.set 0 n)) := by
  obtain ⟨s, data⟩ := X
  cases s with
  | nil => simp [dim] at hn
  | cons d rest =>
    cases idx with
    | nil => simp at hl
    | cons i is =>
      simp only [dim, List.getD_cons_zero] at hn
      have hl' : is.length = rest.length := by simpa using hl
      simp only [pin, List.set_cons_zero, List.length_cons, hl', Nat.sub_self, List.drop_zero,
        List.zipWith_cons_cons, if_true] at hr ⊢
      have hr' : InRange (0 :: List.zipWith (fun n i => if n = 1 then 0 else i) rest is)
          ((d :: rest).set 0 1) := by
        simp only [List.set_cons_zero, InRange] at hr ⊢
        exact ⟨by omega, hr.2⟩
      rw [takeBatch_get 0 n ⟨d :: rest, data⟩ _ hr']
      simp only [List.set_cons_zero]
      by_cases hd : d = 1
      · have : n = 0 := by omega
        simp [hd, this]
      · simp [hd]

/-! ### broadcast shapes of a sample against a weight that does not carry the batch -/

theorem pad0_of_batchFree (r : Nat) (w : List Nat)
    (h : w.length < r ∨ (w.length = r ∧ dim w 0 = 1)) : dim (padShape r w) 0 = 1 := by
  rw [dim_padShape]
  rcases h with h | ⟨h1, h2⟩
  · rw [if_pos (by omega)]
  · rw [if_neg (by omega)]; simpa using h2

theorem le_of_batchFree {r : Nat} {w : List Nat}
    (h : w.length < r ∨ (w.length = r ∧ dim w 0 = 1)) : w.length ≤ r := by omega

theorem pos_of_batchFree {r : Nat} {w : List Nat}
    (h : w.length < r ∨ (w.length = r ∧ dim w 0 = 1)) : 0 < r := by
  rcases h with h | ⟨h1, h2⟩
  · omega
  · cases w with
    | nil => simp [dim] at h2
    | cons a w => simp at h1; omega

theorem pos_of_dim (l : List Nat) (h : ∀ j, j < l.length → 0 < dim l j) : ∀ d ∈ l, 0 < d := by
  intro d hd
  obtain ⟨j, hj, e⟩ := List.getElem_of_mem hd
  have := h j hj
  rw [dim_eq, List.getElem?_eq_getElem hj, e] at this
  simpa using this

theorem dim_bshape (s w : List Nat) (h : w.length ≤ s.length) (j : Nat) (hj : j < s.length) :
    dim (bshape s w) j = max (dim s j) (dim (padShape s.length w) j) := by
  unfold bshape
  simp only []
  rw [Nat.max_eq_left h, padShape_self, dim_zipWith _ _ _ _ hj (by rw [length_padShape _ _ h]; exact hj)]

theorem compat_sample (s w : List Nat) (h : w.length ≤ s.length) (hs : 0 < s.length)
    (hc : Compatible s w = true) : Compatible (s.set 0 1) w = true := by
  rw [compatible_iff' _ _ h] at hc
  rw [compatible_iff' _ _ (by simpa using h)]
  intro j hj
  simp only [List.length_set] at hj ⊢
  rw [dim_set_zero _ _ _ hs]
  split
  · rw [dimCompat_iff]; omega
  · exact hc j hj

theorem bshape_sample (s w : List Nat) (h : w.length ≤ s.length) (hs : 0 < s.length)
    (h0 : dim (padShape s.length w) 0 = 1) :
    bshape (s.set 0 1) w = (bshape s w).set 0 1 := by
  have hl : (bshape s w).length = s.length := by rw [length_bshape]; omega
  apply ext_dim
  · rw [length_bshape, List.length_set, List.length_set, hl]; omega
  · intro j hj
    rw [length_bshape, List.length_set] at hj
    have hj' : j < s.length := by omega
    rw [dim_bshape _ _ (by simpa using h) _ (by simpa using hj'), dim_set_zero _ _ _ hs,
      dim_set_zero _ _ _ (by rw [hl]; exact hs), List.length_set, dim_bshape _ _ h _ hj']
    split
    · next e => subst e; rw [h0]; rfl
    · rfl

/-! ### an elementwise operator against a weight, multidirectional broadcasting -/

/-- core: an operator that equals `Spec.binary g · W` and succeeds exactly on compatible shapes acts
per sample when `W` does not carry the batch -/
theorem multi_core (g : α → α → β) (W : Tensor α) (op : Tensor α → Res (Tensor β))
    (hspec : ∀ X t, Good X → op X = .ok t → ∃ s, Spec.binary g X W = some s ∧ Equiv t s)
    (hok : ∀ X, (op X).isOk = Compatible X.shape W.shape) :
    ∀ X Y, Good X →
      (W.shape.length < X.shape.length ∨ (W.shape.length = X.shape.length ∧ dim W.shape 0 = 1)) →
      op X = .ok Y →
      Good Y ∧ 0 < Y.shape.length ∧ dim Y.shape 0 = dim X.shape 0 ∧
      ∀ n, n < dim X.shape 0 → op (takeBatch 0 n X) = .ok (takeBatch 0 n Y) := by
  intro X Y hX hbf hY
  have hle := le_of_batchFree hbf
  have hr := pos_of_batchFree hbf
  have h0 := pad0_of_batchFree _ _ hbf
  have hXp : Pos X.shape := hX.2
  obtain ⟨s, hs, hYs⟩ := hspec X Y hX hY
  have hc : Compatible X.shape W.shape = true := by rw [← hok X, hY]; rfl
  unfold Spec.binary at hs
  rw [if_pos hc] at hs
  cases hs
  have hYshape : Y.shape = bshape X.shape W.shape := hYs.1
  have hlen : (bshape X.shape W.shape).length = X.shape.length := by rw [length_bshape]; omega
  have hcj := (compatible_iff' _ _ hle).1 hc
  have hdimY : dim Y.shape 0 = dim X.shape 0 := by
    rw [hYshape, dim_bshape _ _ hle _ hr, h0]
    have := Pos_dim hXp hr
    omega
  refine ⟨⟨hYs.2.1, ?_⟩, by rw [hYshape, hlen]; exact hr, hdimY, ?_⟩
  · apply pos_of_dim
    intro j hj
    rw [hYshape, hlen] at hj
    rw [hYshape, dim_bshape _ _ hle _ hj]
    have := Pos_dim hXp hj
    omega
  · intro n hn
    have hXn := takeBatch_good 0 n X hX
    have hsh : (takeBatch 0 n X).shape = X.shape.set 0 1 := rfl
    have hc' : Compatible (takeBatch 0 n X).shape W.shape = true := by
      rw [hsh]; exact compat_sample _ _ hle hr hc
    have hok' := hok (takeBatch 0 n X)
    rw [hc'] at hok'
    have ⟨t', ht'⟩ : ∃ t', op (takeBatch 0 n X) = .ok t' := by
      rcases isOk_cases (op (takeBatch 0 n X)) with h | ⟨e, he⟩
      · exact h
      · rw [he] at hok'; simp [Res.isOk] at hok'
    obtain ⟨s', hs', hts'⟩ := hspec _ t' hXn.1 ht'
    unfold Spec.binary at hs'
    rw [if_pos hc', hsh, bshape_sample _ _ hle hr h0] at hs'
    cases hs'
    rw [ht']
    congr 1
    apply eq_takeBatch_of_equiv
    have hshape' : t'.shape = (bshape X.shape W.shape).set 0 1 := hts'.1
    refine ⟨by rw [hshape']; simp [takeBatch, hYshape], hts'.2.1, ofFn_WF _ _, ?_⟩
    intro idx hidx
    rw [hshape'] at hidx
    have hidxY : InRange idx (Y.shape.set 0 1) := by rw [hYshape]; exact hidx
    have hnY : n < dim Y.shape 0 := by rw [hdimY]; exact hn
    have hset := InRange_set _ _ 0 n hidxY hnY
    rw [hts'.2.2.2 idx (by rw [hshape']; exact hidx), get_ofFn _ _ _ hidx,
      takeBatch_get _ _ _ _ hidxY, hYs.2.2.2 _ hset, get_ofFn _ _ _ (by rw [← hYshape]; exact hset)]
    have hil : idx.length = X.shape.length := by
      rw [InRange_length hidx, List.length_set, hlen]
    have hpr : InRange (pin X.shape (idx.set 0 n)) X.shape := by
      apply MatMul.pin_InRange (bshape X.shape W.shape) X.shape _ (by rw [hlen]; exact Nat.le_refl _)
      · intro j hj
        rw [hlen] at hj
        rw [hlen, padShape_self, dim_bshape _ _ hle _ hj]
        have := (dimCompat_iff _ _).1 (hcj j hj)
        have := Pos_dim hXp hj
        omega
      · rw [← hYshape]; exact hset
    rw [takeBatch_pin X idx n hn hil hpr, pin_set0 W.shape idx n (by rw [hil]; exact hbf)]

theorem compatible_comm (s1 s2 : List Nat) : Compatible s1 s2 = Compatible s2 s1 := by
  rw [Bool.eq_iff_iff, compatible_iff, compatible_iff, Nat.max_comm s2.length]
  constructor <;> intro h j hj <;> have := h j hj <;> rw [dimCompat_iff] at this ⊢ <;> omega

theorem bshape_comm (s1 s2 : List Nat) : bshape s1 s2 = bshape s2 s1 := by
  unfold bshape
  simp only []
  rw [Nat.max_comm, zipWith_max_comm]

omit [Inhabited β] in
theorem spec_binary_comm (f : α → α → β) (A B : Tensor α) :
    Spec.binary f A B = Spec.binary (fun a b => f b a) B A := by
  unfold Spec.binary
  rw [compatible_comm, bshape_comm]

/-- weight on the right -/
theorem binary_weight_pointwise (f : α → α → β) (W : Tensor α) (hW : Good W) :
    ∀ X Y, Good X →
      (W.shape.length < X.shape.length ∨ (W.shape.length = X.shape.length ∧ dim W.shape 0 = 1)) →
      applyBinary f .multi X W = .ok Y →
      Good Y ∧ 0 < Y.shape.length ∧ dim Y.shape 0 = dim X.shape 0 ∧
      ∀ n, n < dim X.shape 0 → applyBinary f .multi (takeBatch 0 n X) W = .ok (takeBatch 0 n Y) :=
  multi_core f W (fun X => applyBinary f .multi X W)
    (fun X t hX h => binary_eq_spec f X W hX.2 hW.2 hX.1 hW.1 t h)
    (fun X => binary_ok_iff f X W)

/-- weight on the left -/
theorem binary_weight_left_pointwise (f : α → α → β) (W : Tensor α) (hW : Good W) :
    ∀ X Y, Good X →
      (W.shape.length < X.shape.length ∨ (W.shape.length = X.shape.length ∧ dim W.shape 0 = 1)) →
      applyBinary f .multi W X = .ok Y →
      Good Y ∧ 0 < Y.shape.length ∧ dim Y.shape 0 = dim X.shape 0 ∧
      ∀ n, n < dim X.shape 0 → applyBinary f .multi W (takeBatch 0 n X) = .ok (takeBatch 0 n Y) :=
  multi_core (fun a b => f b a) W (fun X => applyBinary f .multi W X)
    (fun X t hX h => by
      rw [← spec_binary_comm]
      exact binary_eq_spec f W X hW.2 hX.2 hW.1 hX.1 t h)
    (fun X => by rw [compatible_comm]; exact binary_ok_iff f W X)

/-! ### an elementwise kernel against a weight, unidirectional broadcasting (bias add of Gemm, …) -/

theorem Pos_of_unidir (X W : Tensor α) (hX : Pos X.shape) (h : (unidirBroadcast X W).isOk = true) :
    Pos W.shape := by
  by_cases hlt : X.shape.length < W.shape.length
  · rw [unidir_lt X W hlt] at h; simp [Res.isOk] at h
  · have hc := (unidir_isOk X W hlt).1 h
    apply pos_of_dim
    intro j hj
    have := hc (X.shape.length - W.shape.length + j) (by omega)
    rw [dim_padShape, if_neg (by omega)] at this
    have e : X.shape.length - W.shape.length + j - (X.shape.length - W.shape.length) = j := by omega
    rw [e] at this
    have := Pos_dim hX (j := X.shape.length - W.shape.length + j) (by omega)
    omega

theorem uni_weight (f : α → α → α) (W : Tensor α) (hW : W.WF) :
    ∀ X Y, Good X →
      (W.shape.length < X.shape.length ∨ (W.shape.length = X.shape.length ∧ dim W.shape 0 = 1)) →
      MatMul.uniZip f X W = .ok Y →
      Good Y ∧ Y.shape = X.shape ∧
      ∀ n, n < dim X.shape 0 → MatMul.uniZip f (takeBatch 0 n X) W = .ok (takeBatch 0 n Y) := by
  intro X Y hX hbf hY
  have hle := le_of_batchFree hbf
  have hr := pos_of_batchFree hbf
  have h0 := pad0_of_batchFree _ _ hbf
  have hok : (unidirBroadcast X W).isOk = true := by
    cases h : (unidirBroadcast X W).isOk with
    | true => rfl
    | false => exact absurd hY (MatMul.uniZip_err f X W h Y)
  have hWp := Pos_of_unidir X W hX.2 hok
  obtain ⟨Z, z1, z2, z3, z4⟩ := MatMul.uniZip_ok f X W hX.2 hWp hX.1 hW hok
  have hZY : Z = Y := by rw [z1] at hY; exact Except.ok.inj hY
  subst hZY
  refine ⟨⟨z3, by rw [z2]; exact hX.2⟩, z2, ?_⟩
  intro n hn
  have hXn := takeBatch_good 0 n X hX
  have hsh : (takeBatch 0 n X).shape = X.shape.set 0 1 := rfl
  have hlt : ¬ X.shape.length < W.shape.length := by omega
  have hok' : (unidirBroadcast (takeBatch 0 n X) W).isOk = true := by
    rw [unidir_isOk _ _ (by rw [hsh, List.length_set]; exact hlt)]
    intro j hj
    rw [hsh, List.length_set] at hj ⊢
    rw [dim_set_zero _ _ _ hr]
    split
    · next e => subst e; right; exact h0
    · exact (unidir_isOk X W hlt).1 hok j hj
  obtain ⟨Z', y1, y2, y3, y4⟩ := MatMul.uniZip_ok f (takeBatch 0 n X) W hXn.1.2 hWp hXn.1.1 hW hok'
  rw [y1]
  congr 1
  apply eq_takeBatch_of_equiv
  refine ⟨by rw [y2, hsh]; simp [takeBatch, z2], y3, ofFn_WF _ _, ?_⟩
  intro idx hidx
  rw [y2, hsh] at hidx
  have hidxZ : InRange idx (Z.shape.set 0 1) := by rw [z2]; exact hidx
  have hset := InRange_set _ _ 0 n hidx hn
  rw [y4 idx hidx, takeBatch_get _ _ _ _ hidx, takeBatch_get _ _ _ _ hidxZ, z4 _ hset,
    pin_set0 W.shape idx n (by rw [InRange_length hidx, List.length_set]; exact hbf)]

/-! ### Gemm, LinearRegressor, Scaler -/

theorem Good_opT (t : Bool) (W : Tensor α) (hW : Good W) : Good (if t then transpose2 W else W) := by
  cases t with
  | false => exact hW
  | true =>
    refine ⟨ofFn_WF _ _, ?_⟩
    intro d hd
    simp only [if_true, transpose2, ofFn_shape, List.mem_reverse] at hd
    exact hW.2 d hd

omit [Inhabited α] in
theorem Good_map (g : α → α) (P : Tensor α) (hP : Good P) : Good (P.map g) :=
  ⟨MatMul.map_WF g P hP.1, hP.2⟩

theorem map_takeBatch (g : α → α) (P : Tensor α) (hP : P.WF) (n : Nat) (hn : n < dim P.shape 0) :
    (takeBatch 0 n P).map g = takeBatch 0 n (P.map g) := unary_takeBatch 0 n g P hP hn

theorem mm2_rank (A : Arith α) (X W P : Tensor α) (h : mm2 A X W = .ok P) : P.shape.length = 2 := by
  obtain ⟨n, k, m, hXs, hWs⟩ := MatMul.mm2_inv A X W P h
  rw [MatMul.mm2_ok A X W n k m hXs hWs] at h
  cases h
  rfl

theorem gemm_weight_pointwise (A : Arith α) (alpha beta : α) (tB : Bool) (W : Tensor α) (c : Option (Tensor α))
    (hW : Good W)
    (hc : ∀ t, c = some t → Good t ∧ (t.shape.length < 2 ∨ (t.shape.length = 2 ∧ dim t.shape 0 = 1))) :
    BatchPointwise 0 0 (fun X => gemmOp A alpha beta false tB X W c) := by
  intro X Y hX hax h
  simp only [MatMul.gemmOp_eq, Bool.false_eq_true, if_false] at h ⊢
  have hW' := Good_opT tB W hW
  cases hmm : mm2 A X (if tB then transpose2 W else W) with
  | error e => rw [hmm] at h; cases h
  | ok P =>
    rw [hmm] at h
    obtain ⟨gP, aP, dP, sP⟩ := matmul_weight_pointwise A _ hW' X P hX hax hmm
    have hP2 := mm2_rank A _ _ _ hmm
    have gQ := Good_map (fun v => A.mul v alpha) P gP
    cases c with
    | none =>
      simp only [MatMul.gemmTail] at h ⊢
      cases h
      refine ⟨gQ, aP, dP, ?_⟩
      intro n hn
      have sP' := sP n hn
      simp only at sP'
      rw [sP']
      simp only
      rw [map_takeBatch _ P gP.1 n (by rw [dP]; exact hn)]
    | some t =>
      simp only [MatMul.gemmTail] at h ⊢
      obtain ⟨gt, bft⟩ := hc t rfl
      obtain ⟨gY, sY, uY⟩ := uni_weight A.add (t.map fun v => A.mul v beta) (MatMul.map_WF _ t gt.1)
        (P.map fun v => A.mul v alpha) Y gQ (by simpa [Tensor.map, hP2] using bft) h
      have sY' : Y.shape = P.shape := sY
      refine ⟨gY, by rw [sY']; exact aP, by rw [sY']; exact dP, ?_⟩
      intro n hn
      have sP' := sP n hn
      simp only at sP'
      rw [sP']
      simp only
      rw [map_takeBatch _ P gP.1 n (by rw [dP]; exact hn)]
      exact uY n (by show n < dim P.shape 0; rw [dP]; exact hn)

theorem linregOp_eq (A : Arith α) (coef icpt : List α) (targets : Nat) (x : Tensor α) :
    linregOp A coef icpt targets x =
      if targets = 0 then .error .panic
      else if targets * (coef.length / targets) ≠ coef.length then .error .shape
      else match mm2 A x (transpose2 ⟨[targets, coef.length / targets], coef⟩) with
        | .error e => .error e
        | .ok r => MatMul.uniZip A.add r ⟨[icpt.length], icpt⟩ := by
  unfold linregOp MatMul.uniZip
  rfl

theorem linreg_pointwise (A : Arith α) (coef icpt : List α) (targets : Nat) :
    BatchPointwise 0 0 (fun X => linregOp A coef icpt targets X) := by
  intro X Y hX hax h
  simp only [linregOp_eq] at h ⊢
  split at h
  · cases h
  next ht =>
  split at h
  · cases h
  next hcl =>
  simp only [if_neg ht, if_neg hcl]
  cases hmm : mm2 A X (transpose2 ⟨[targets, coef.length / targets], coef⟩) with
  | error e => rw [hmm] at h; cases h
  | ok P =>
    rw [hmm] at h
    simp only at h
    obtain ⟨n, k, m, hXs, hWs⟩ := MatMul.mm2_inv A _ _ _ hmm
    have hk : 0 < k := hX.2 k (by rw [hXs]; simp)
    have hWs' : [coef.length / targets, targets] = [k, m] := hWs
    have hW' : Good (transpose2 (⟨[targets, coef.length / targets], coef⟩ : Tensor α)) := by
      refine ⟨ofFn_WF _ _, ?_⟩
      intro d hd
      rw [hWs] at hd
      simp only [List.cons.injEq, and_true] at hWs'
      simp only [List.mem_cons, List.not_mem_nil, or_false] at hd
      rcases hd with hd | hd <;> omega
    obtain ⟨gP, aP, dP, sP⟩ := matmul_weight_pointwise A _ hW' X P hX hax hmm
    have hP2 := mm2_rank A _ _ _ hmm
    obtain ⟨gY, sY, uY⟩ := uni_weight A.add ⟨[icpt.length], icpt⟩ (MatMul.vec_WF icpt) P Y gP
      (by left; simp [hP2]) h
    refine ⟨gY, by rw [sY]; exact aP, by rw [sY]; exact dP, ?_⟩
    intro i hi
    have sP' := sP i hi
    simp only at sP'
    rw [sP']
    exact uY i (by rw [dP]; exact hi)

theorem scalerOp_eq (A : Arith α) (off sc : List α) (x : Tensor α) :
    scalerOp A off sc x =
      match MatMul.uniZip A.sub x ⟨[off.length], off⟩ with
      | .error e => .error e
      | .ok x2 => MatMul.uniZip A.mul x2 ⟨[sc.length], sc⟩ := by
  unfold scalerOp MatMul.uniZip
  cases unidirBroadcast x ⟨[off.length], off⟩ with
  | error e => rfl
  | ok v => rfl

theorem scaler_pointwise (A : Arith α) (offset scale : List α) :
    ∀ X Y, Good X → X.shape.length = 2 → scalerOp A offset scale X = .ok Y →
      Good Y ∧ 0 < Y.shape.length ∧ dim Y.shape 0 = dim X.shape 0 ∧
      ∀ n, n < dim X.shape 0 → scalerOp A offset scale (takeBatch 0 n X) = .ok (takeBatch 0 n Y) := by
  intro X Y hX h2 h
  simp only [scalerOp_eq] at h ⊢
  cases h1 : MatMul.uniZip A.sub X ⟨[offset.length], offset⟩ with
  | error e => rw [h1] at h; cases h
  | ok P =>
    rw [h1] at h
    simp only at h
    obtain ⟨gP, sP, uP⟩ := uni_weight A.sub ⟨[offset.length], offset⟩ (MatMul.vec_WF offset) X P hX
      (by left; simp [h2]) h1
    obtain ⟨gY, sY, uY⟩ := uni_weight A.mul ⟨[scale.length], scale⟩ (MatMul.vec_WF scale) P Y gP
      (by left; simp [sP, h2]) h
    refine ⟨gY, by rw [sY, sP, h2]; omega, by rw [sY, sP], ?_⟩
    intro n hn
    rw [uP n hn]
    exact uY n (by rw [sP]; exact hn)

/-! ### Flatten with axis 1 -/

theorem prod_pos (s : List Nat) (h : ∀ d ∈ s, 0 < d) : 0 < prod s := by
  induction s with
  | nil => simp
  | cons d s ih =>
    simp only [prod_cons]
    exact Nat.mul_pos (h d (by simp)) (ih (fun x hx => h x (by simp [hx])))

omit [Inhabited α] in
theorem flatten1_eq (X : Tensor α) (d : Nat) (rest : List Nat) (hs : X.shape = d :: rest) :
    flattenOp X 1 = .ok ⟨[d, prod rest], X.data⟩ := by
  unfold flattenOp gReshape
  simp [hs, iprod, prod, Int.natCast_mul]
  rw [if_neg (by omega), if_neg (by omega)]

theorem flatten1_pointwise : BatchPointwise (α := α) (β := α) 0 0 (fun X => flattenOp X 1) := by
  intro X Y hX hax h
  obtain ⟨s, data⟩ := X
  cases s with
  | nil => simp at hax
  | cons d rest =>
    simp only [flatten1_eq ⟨d :: rest, data⟩ d rest rfl] at h
    cases h
    have hd : 0 < d := hX.2 d (by simp)
    have hrest : 0 < prod rest := prod_pos rest (fun x hx => hX.2 x (by simp [hx]))
    have hW : data.length = d * prod rest := hX.1
    refine ⟨⟨by simpa [Tensor.WF] using hW, ?_⟩, by simp, rfl, ?_⟩
    · intro x hx
      simp only [List.mem_cons, List.not_mem_nil, or_false] at hx
      rcases hx with hx | hx <;> omega
    · intro n hn
      simp only [dim, List.getD_cons_zero] at hn
      simp only
      rw [flatten1_eq (takeBatch 0 n ⟨d :: rest, data⟩) 1 rest rfl]
      congr 1
      apply eq_takeBatch_of_equiv
      refine ⟨rfl, ?_, ofFn_WF _ _, ?_⟩
      · have := (takeBatch_good 0 n ⟨d :: rest, data⟩ hX).1.1
        simpa [Tensor.WF, takeBatch] using this
      · intro idx hidx
        have hidx' : InRange idx [1, prod rest] := hidx
        obtain ⟨e, i0, i1⟩ := MatMul.InRange2_inv idx _ _ hidx'
        have i0' : idx.getD 0 0 = 0 := by omega
        obtain ⟨is, hin, hr⟩ := exists_idx rest (idx.getD 1 0) i1
        rw [takeBatch_get 0 n ⟨[d, prod rest], data⟩ idx hidx', e, i0']
        have hin' : InRange (0 :: is) ((d :: rest).set 0 1) := by
          simp only [List.set_cons_zero, InRange]; exact ⟨by omega, hin⟩
        have h1 : (⟨[1, prod rest], (takeBatch 0 n ⟨d :: rest, data⟩).data⟩ : Tensor α).get [0, idx.getD 1 0] =
            (takeBatch 0 n ⟨d :: rest, data⟩).get (0 :: is) := by
          show (takeBatch 0 n ⟨d :: rest, data⟩).data.getD _ _ = (takeBatch 0 n ⟨d :: rest, data⟩).data.getD _ _
          congr 1
          show ravel [1, prod rest] [0, idx.getD 1 0] = ravel (1 :: rest) (0 :: is)
          simp [ravel, hr]
        rw [h1, takeBatch_get 0 n _ _ hin']
        simp [Tensor.get, ravel, hr]

end Gonnx.Proofs.Batch2
