import Gonnx.Proofs.Batch2
/-
C16, second part: RNN / GRU / LSTM act per sample (batch = axis 1 of X and of the initial states,
axis 2 of Y, axis 1 of Y_h / Y_c). Helper lemmas for Theorems/C16b.lean: the ONNX recurrence of a
sample is the slice of the recurrence of the batch (row `n` of every state of the batch is row 0 of
the corresponding state of the sample); the model inherits this through C06.
-/
namespace Gonnx.Proofs.Batch2
open Gonnx Gonnx.Spec Gonnx.Proofs Gonnx.Proofs.Batch Gonnx.Proofs.Recurrent
variable {α : Type} [Inhabited α]

/-- the dimensions of a single sample -/
def sampleDims (d : RecDims) : RecDims := ⟨d.seq, 1, d.input, d.hidden⟩

theorem sampleDims_seq (d : RecDims) : (sampleDims d).seq = d.seq := rfl
theorem sampleDims_batch (d : RecDims) : (sampleDims d).batch = 1 := rfl
theorem sampleDims_input (d : RecDims) : (sampleDims d).input = d.input := rfl
theorem sampleDims_hidden (d : RecDims) : (sampleDims d).hidden = d.hidden := rfl

/-- row 0 of `H'` (state of the sample) is row `n` of `H` (state of the batch) -/
def RowRel (n hidden : Nat) (H' H : Tensor α) : Prop := ∀ k, k < hidden → H'.get [0, k] = H.get [n, k]

/-! ### the iteration -/

omit [Inhabited α] in
theorem iterate_rel {σ : Type} (Rel : σ → σ → Prop) (step step' : Nat → σ → σ) (hid : σ → Tensor α)
    (T : Nat) (hstep : ∀ t s s', t < T → Rel s' s → Rel (step' t s') (step t s)) :
    ∀ m t s s', t + m ≤ T → Rel s' s →
      (∀ i, i < m → ∃ u u', (Spec.iterate step hid m t s).1[i]? = some (hid u) ∧
        (Spec.iterate step' hid m t s').1[i]? = some (hid u') ∧ Rel u' u) ∧
      Rel (Spec.iterate step' hid m t s').2 (Spec.iterate step hid m t s).2 := by
  intro m
  induction m with
  | zero =>
    intro t s s' _ hr
    exact ⟨fun i hi => absurd hi (Nat.not_lt_zero i), hr⟩
  | succ m ih =>
    intro t s s' ht hr
    have h1 := hstep t s s' (by omega) hr
    obtain ⟨i1, i2⟩ := ih (t + 1) (step t s) (step' t s') (by omega) h1
    simp only [Spec.iterate]
    refine ⟨?_, i2⟩
    intro i hi
    cases i with
    | zero => exact ⟨step t s, step' t s', by simp, by simp, h1⟩
    | succ i =>
      obtain ⟨u, u', e1, e2, e3⟩ := i1 i (by omega)
      exact ⟨u, u', by simpa using e1, by simpa using e2, e3⟩

/-! ### the outputs -/

theorem stack_sample (hs hs' : List (Tensor α)) (d : RecDims) (n : Nat) (hn : n < d.batch)
    (h : ∀ t, t < d.seq → RowRel n d.hidden (hs'.getD t ⟨[], []⟩) (hs.getD t ⟨[], []⟩)) :
    Equiv (stackSpec hs' (sampleDims d)) (takeBatch 2 n (stackSpec hs d)) := by
  refine ⟨rfl, ofFn_WF _ _, ofFn_WF _ _, ?_⟩
  intro idx hidx
  have hidx4 : InRange idx [d.seq, 1, 1, d.hidden] := hidx
  have hidx' : InRange idx ((stackSpec hs d).shape.set 2 1) := hidx
  have hset : InRange (idx.set 2 n) [d.seq, 1, d.batch, d.hidden] :=
    InRange_set _ _ 2 n hidx' (by simp [dim]; exact hn)
  rw [takeBatch_get _ _ _ _ hidx']
  unfold stackSpec
  simp only [sampleDims_seq, sampleDims_batch, sampleDims_hidden]
  rw [get_ofFn _ _ _ hidx4, get_ofFn _ _ _ hset]
  match idx, hidx4 with
  | [t, a, b, j], hidx4 =>
    simp only [InRange] at hidx4
    have hb : b = 0 := by omega
    subst hb
    simp only [List.set_cons_succ, List.set_cons_zero, List.getD_cons_zero, List.getD_cons_succ]
    exact h t hidx4.1 j hidx4.2.2.2.1

theorem final_sample (hf hf' : Tensor α) (batch hidden n : Nat) (hn : n < batch)
    (h : RowRel n hidden hf' hf) :
    Equiv (ofFn [1, 1, hidden] fun idx => hf'.get (idx.drop 1))
      (takeBatch 1 n (ofFn [1, batch, hidden] fun idx => hf.get (idx.drop 1))) := by
  refine ⟨rfl, ofFn_WF _ _, ofFn_WF _ _, ?_⟩
  intro idx hidx
  have hidx3 : InRange idx [1, 1, hidden] := hidx
  have hidx' : InRange idx ((ofFn [1, batch, hidden] fun idx => hf.get (idx.drop 1)).shape.set 1 1) := hidx
  have hset : InRange (idx.set 1 n) [1, batch, hidden] :=
    InRange_set _ _ 1 n hidx' (by simp [dim]; exact hn)
  rw [takeBatch_get _ _ _ _ hidx', get_ofFn _ _ _ hidx3, get_ofFn _ _ _ hset]
  match idx, hidx3 with
  | [a, b, j], hidx3 =>
    simp only [InRange] at hidx3
    have hb : b = 0 := by omega
    subst hb
    simp only [List.set_cons_succ, List.set_cons_zero, List.drop_succ_cons, List.drop_zero]
    exact h j hidx3.2.2.1

/-! ### inputs of a sample -/

theorem x_sample (X : Tensor α) (d : RecDims) (hX : X.shape = [d.seq, d.batch, d.input]) (n t l : Nat)
    (ht : t < d.seq) (hl : l < d.input) : (takeBatch 1 n X).get [t, 0, l] = X.get [t, n, l] := by
  rw [takeBatch_get 1 n X [t, 0, l] (by rw [hX]; simp [InRange, ht, hl])]
  rfl

theorem init_sample (zero : α) (H0 : Option (Tensor α)) (d : RecDims) (n : Nat) (hn : n < d.batch)
    (hs : ∀ h, H0 = some h → h.shape = [1, d.batch, d.hidden]) :
    RowRel n d.hidden (initS zero (H0.map (takeBatch 1 n)) 1 d.hidden) (initS zero H0 d.batch d.hidden) := by
  intro k hk
  cases H0 with
  | none =>
    simp only [Option.map_none, initS]
    rw [ofFn_get2 _ _ _ _ _ (by omega) hk, ofFn_get2 _ _ _ _ _ hn hk]
  | some h =>
    simp only [Option.map_some, initS]
    rw [ofFn_get2 _ _ _ _ _ (by omega) hk, ofFn_get2 _ _ _ _ _ hn hk,
      takeBatch_get 1 n h [0, 0, k] (by rw [hs h rfl]; simp [InRange, hk])]
    rfl

theorem shapes_sample (G : Nat) (d : RecDims) (X W R : Tensor α) (B H0 : Option (Tensor α)) (n : Nat)
    (h : recShapesOk G d X W R B H0 = true) :
    recShapesOk G (sampleDims d) (takeBatch 1 n X) W R B (H0.map (takeBatch 1 n)) = true := by
  rw [recShapesOk_iff] at h ⊢
  obtain ⟨h1, h2, h3, h4, h5⟩ := h
  refine ⟨by simp [takeBatch, h1, sampleDims], h2, h3, h4, ?_⟩
  intro t ht
  cases H0 with
  | none => simp at ht
  | some h0 =>
    simp only [Option.map_some, Option.some.injEq] at ht
    subst ht
    simp [takeBatch, h5 h0 rfl, sampleDims]

/-! ### RNN -/

theorem rnn_step_sample (A : Arith α) (f : α → α) (d : RecDims) (X W R : Tensor α) (B : Option (Tensor α))
    (hX : X.shape = [d.seq, d.batch, d.input]) (n : Nat) (hn : n < d.batch)
    (t : Nat) (H H' : Tensor α) (ht : t < d.seq) (hr : RowRel n d.hidden H' H) :
    RowRel n d.hidden (rnnStepS A f (sampleDims d) (takeBatch 1 n X) W R B t H') (rnnStepS A f d X W R B t H) := by
  intro k hk
  unfold rnnStepS
  simp only [sampleDims]
  rw [ofFn_get2 _ _ _ _ _ (by omega) hk, ofFn_get2 _ _ _ _ _ hn hk]
  simp only [List.getD_cons_zero, List.getD_cons_succ]
  congr 1
  exact gatePre_congr A 1 d.hidden d.input W R B _ _ _ _ 0 k
    (fun l hl => x_sample X d hX n t l ht hl) (fun l hl => hr l hl)

theorem rnn_spec_sample (A : Arith α) (f : α → α) (d : RecDims) (X W R : Tensor α) (B H0 : Option (Tensor α))
    (s : Tensor α × Tensor α) (hs : Spec.rnn A f d X W R B H0 = some s) (n : Nat) (hn : n < d.batch) :
    ∃ s', Spec.rnn A f (sampleDims d) (takeBatch 1 n X) W R B (H0.map (takeBatch 1 n)) = some s' ∧
      Equiv s'.1 (takeBatch 2 n s.1) ∧ Equiv s'.2 (takeBatch 1 n s.2) ∧
      s.1.shape = [d.seq, 1, d.batch, d.hidden] ∧ s.2.shape = [1, d.batch, d.hidden] := by
  rw [rnn_spec_eq] at hs ⊢
  split at hs
  · cases hs
  next hc =>
  simp only [not_or, Bool.not_eq_false, Bool.not_eq_eq_eq_not, Bool.not_true] at hc
  obtain ⟨hok, hseq⟩ := hc
  have hok : recShapesOk 1 d X W R B H0 = true := by simpa using hok
  have hok' := shapes_sample 1 d X W R B H0 n hok
  have hcond : ¬ ((!recShapesOk 1 (sampleDims d) (takeBatch 1 n X) W R B (H0.map (takeBatch 1 n))) = true ∨
      (sampleDims d).seq = 0) := by
    rw [hok']; simpa [sampleDims] using hseq
  rw [if_neg hcond]
  simp only [sampleDims_seq, sampleDims_batch, sampleDims_hidden]
  cases hs
  obtain ⟨hX, _, _, _, hH⟩ := (recShapesOk_iff _ _ _ _ _ _ _).1 hok
  obtain ⟨i1, i2⟩ := iterate_rel (RowRel n d.hidden) (rnnStepS A f d X W R B)
    (rnnStepS A f (sampleDims d) (takeBatch 1 n X) W R B) id d.seq
    (fun t s s' ht hr => rnn_step_sample A f d X W R B hX n hn t s s' ht hr)
    d.seq 0 _ _ (by omega) (init_sample A.zero H0 d n hn hH)
  refine ⟨_, rfl, ?_, ?_, rfl, rfl⟩
  · apply stack_sample _ _ d n hn
    intro t ht
    obtain ⟨u, u', e1, e2, e3⟩ := i1 t ht
    simp only [List.getD, e1, e2, Option.getD_some]
    exact e3
  · exact final_sample _ _ d.batch d.hidden n hn i2

omit [Inhabited α] in
theorem WF_map_takeBatch [Inhabited α] (H0 : Option (Tensor α)) (n : Nat) :
    ∀ h, H0.map (takeBatch 1 n) = some h → h.WF := by
  intro h hh
  cases H0 with
  | none => simp at hh
  | some t =>
    simp only [Option.map_some, Option.some.injEq] at hh
    subst hh
    exact ofFn_WF _ _

/-- model result of the sample ≈ spec of the sample ≈ slice of the spec of the batch ≈ slice of the
model result of the batch -/
theorem chain {y1 s' s y : Tensor α} (ax n : Nat) (h1 : Equiv y1 s') (h2 : Equiv s' (takeBatch ax n s))
    (h3 : Equiv y s) (hn : n < dim s.shape ax) : Equiv y1 (takeBatch ax n y) :=
  equiv_trans h1 (equiv_trans h2 (equiv_symm (equiv_takeBatch ax n h3 (by rw [h3.1]; exact hn))))

theorem rnn_batch_partial (A : Arith α) (one : α) (hone : ∀ v, A.mul v one = v)
    (getAct : String → Option (α → α)) (name : String) (f : α → α) (hact : getAct name = some f)
    (d : Spec.RecDims) (X W R : Tensor α) (B H0 : Option (Tensor α))
    (hh : 2 ≤ d.hidden) (hi : 2 ≤ d.input) (hb : 1 ≤ d.batch) (hsq : 1 ≤ d.seq)
    (hWH : ∀ h, H0 = some h → h.WF)
    (s : Tensor α × Tensor α) (hs : Spec.rnn A f d X W R B H0 = some s)
    (n : Nat) (hn : n < d.batch) :
    ∃ y yh y1 yh1,
      rnnOp A one getAct { hiddenSize := d.hidden, activations := [name] } X W R B none H0 = .ok (y, yh) ∧
      rnnOp A one getAct { hiddenSize := d.hidden, activations := [name] } (takeBatch 1 n X) W R B none
        (H0.map (takeBatch 1 n)) = .ok (y1, yh1) ∧
      Equiv y1 (takeBatch 2 n y) ∧ Equiv yh1 (takeBatch 1 n yh) := by
  obtain ⟨y, yh, e, ey, eyh⟩ := Recurrent.rnn_partial A one hone getAct name f hact d X W R B H0 hh hi hb hsq hWH s hs
  obtain ⟨s', hs', q1, q2, sh1, sh2⟩ := rnn_spec_sample A f d X W R B H0 s hs n hn
  obtain ⟨y1, yh1, e1, ey1, eyh1⟩ := Recurrent.rnn_partial A one hone getAct name f hact (sampleDims d)
    (takeBatch 1 n X) W R B (H0.map (takeBatch 1 n)) hh hi (Nat.le_refl 1) hsq (WF_map_takeBatch H0 n) s' hs'
  exact ⟨y, yh, y1, yh1, e, e1, chain 2 n ey1 q1 ey (by rw [sh1]; exact hn),
    chain 1 n eyh1 q2 eyh (by rw [sh2]; exact hn)⟩

/-! ### GRU -/

theorem gru_step_sample (A : Arith α) (one : α) (f g : α → α) (lbr : Bool) (d : RecDims) (X W R : Tensor α)
    (B : Option (Tensor α))
    (hX : X.shape = [d.seq, d.batch, d.input]) (n : Nat) (hn : n < d.batch)
    (t : Nat) (H H' : Tensor α) (ht : t < d.seq) (hr : RowRel n d.hidden H' H) :
    RowRel n d.hidden (gruStepS A one f g lbr (sampleDims d) (takeBatch 1 n X) W R B t H')
      (gruStepS A one f g lbr d X W R B t H) := by
  intro k hk
  have gp : ∀ gi j, gatePre A 3 d.hidden d.input W R B (fun i => (takeBatch 1 n X).get [t, 0, i])
      (fun k => H'.get [0, k]) gi j =
      gatePre A 3 d.hidden d.input W R B (fun i => X.get [t, n, i]) (fun k => H.get [n, k]) gi j :=
    fun gi j => gatePre_congr A 3 d.hidden d.input W R B _ _ _ _ gi j
      (fun l hl => x_sample X d hX n t l ht hl) (fun l hl => hr l hl)
  have dx : ∀ row, dotRow A (fun i => (takeBatch 1 n X).get [t, 0, i]) W row d.input =
      dotRow A (fun i => X.get [t, n, i]) W row d.input :=
    fun row => dotRow_congr A _ _ W row d.input (fun l hl => x_sample X d hX n t l ht hl)
  have dh : ∀ row, dotRow A (fun k => H'.get [0, k]) R row d.hidden =
      dotRow A (fun k => H.get [n, k]) R row d.hidden :=
    fun row => dotRow_congr A _ _ R row d.hidden (fun l hl => hr l hl)
  have drh : ∀ (q : Nat → α) row, dotRow A (fun k => A.mul (q k) (H'.get [0, k])) R row d.hidden =
      dotRow A (fun k => A.mul (q k) (H.get [n, k])) R row d.hidden :=
    fun q row => dotRow_congr A _ _ R row d.hidden (fun l hl => by rw [hr l hl])
  unfold gruStepS
  simp only [sampleDims_batch, sampleDims_hidden, sampleDims_input]
  rw [ofFn_get2 _ _ _ _ _ (by omega) hk, ofFn_get2 _ _ _ _ _ hn hk]
  simp only [List.getD_cons_zero, List.getD_cons_succ, gp, dx, dh, drh, hr k hk]

theorem gru_spec_sample (A : Arith α) (one : α) (f g : α → α) (lbr : Bool) (d : RecDims) (X W R : Tensor α)
    (B H0 : Option (Tensor α))
    (s : Tensor α × Tensor α) (hs : Spec.gru A one f g lbr d X W R B H0 = some s) (n : Nat) (hn : n < d.batch) :
    ∃ s', Spec.gru A one f g lbr (sampleDims d) (takeBatch 1 n X) W R B (H0.map (takeBatch 1 n)) = some s' ∧
      Equiv s'.1 (takeBatch 2 n s.1) ∧ Equiv s'.2 (takeBatch 1 n s.2) ∧
      s.1.shape = [d.seq, 1, d.batch, d.hidden] ∧ s.2.shape = [1, d.batch, d.hidden] := by
  rw [gru_spec_eq] at hs ⊢
  split at hs
  · cases hs
  next hc =>
  simp only [not_or, Bool.not_eq_false, Bool.not_eq_eq_eq_not, Bool.not_true] at hc
  obtain ⟨hok, hseq⟩ := hc
  have hok : recShapesOk 3 d X W R B H0 = true := by simpa using hok
  have hok' := shapes_sample 3 d X W R B H0 n hok
  have hcond : ¬ ((!recShapesOk 3 (sampleDims d) (takeBatch 1 n X) W R B (H0.map (takeBatch 1 n))) = true ∨
      (sampleDims d).seq = 0) := by
    rw [hok']; simpa [sampleDims] using hseq
  rw [if_neg hcond]
  simp only [sampleDims_seq, sampleDims_batch, sampleDims_hidden]
  cases hs
  obtain ⟨hX, _, _, _, hH⟩ := (recShapesOk_iff _ _ _ _ _ _ _).1 hok
  obtain ⟨i1, i2⟩ := iterate_rel (RowRel n d.hidden) (gruStepS A one f g lbr d X W R B)
    (gruStepS A one f g lbr (sampleDims d) (takeBatch 1 n X) W R B) id d.seq
    (fun t s s' ht hr => gru_step_sample A one f g lbr d X W R B hX n hn t s s' ht hr)
    d.seq 0 _ _ (by omega) (init_sample A.zero H0 d n hn hH)
  refine ⟨_, rfl, ?_, ?_, rfl, rfl⟩
  · apply stack_sample _ _ d n hn
    intro t ht
    obtain ⟨u, u', e1, e2, e3⟩ := i1 t ht
    simp only [List.getD, e1, e2, Option.getD_some]
    exact e3
  · exact final_sample _ _ d.batch d.hidden n hn i2

theorem gru_batch_partial (A : Arith α) (one : α) (hone : ∀ v, A.mul v one = v)
    (getAct : String → Option (α → α)) (n1 n2 : String) (f g : α → α) (h1 : getAct n1 = some f) (h2 : getAct n2 = some g)
    (lbr : Bool) (d : Spec.RecDims) (X W R : Tensor α) (B H0 : Option (Tensor α))
    (hh : 2 ≤ d.hidden) (hi : 2 ≤ d.input) (hb : 1 ≤ d.batch) (hsq : 1 ≤ d.seq)
    (hWH : ∀ h, H0 = some h → h.WF)
    (s : Tensor α × Tensor α) (hs : Spec.gru A one f g lbr d X W R B H0 = some s)
    (n : Nat) (hn : n < d.batch) :
    ∃ y yh y1 yh1,
      gruOp A one getAct { hiddenSize := d.hidden, activations := [n1, n2], linearBeforeReset := lbr } X W R B none H0 = .ok (y, yh) ∧
      gruOp A one getAct { hiddenSize := d.hidden, activations := [n1, n2], linearBeforeReset := lbr } (takeBatch 1 n X) W R B none
        (H0.map (takeBatch 1 n)) = .ok (y1, yh1) ∧
      Equiv y1 (takeBatch 2 n y) ∧ Equiv yh1 (takeBatch 1 n yh) := by
  obtain ⟨y, yh, e, ey, eyh⟩ := Recurrent.gru_partial A one hone getAct n1 n2 f g h1 h2 lbr d X W R B H0 hh hi hb hsq hWH s hs
  obtain ⟨s', hs', q1, q2, sh1, sh2⟩ := gru_spec_sample A one f g lbr d X W R B H0 s hs n hn
  obtain ⟨y1, yh1, e1, ey1, eyh1⟩ := Recurrent.gru_partial A one hone getAct n1 n2 f g h1 h2 lbr (sampleDims d)
    (takeBatch 1 n X) W R B (H0.map (takeBatch 1 n)) hh hi (Nat.le_refl 1) hsq (WF_map_takeBatch H0 n) s' hs'
  exact ⟨y, yh, y1, yh1, e, e1, chain 2 n ey1 q1 ey (by rw [sh1]; exact hn),
    chain 1 n eyh1 q2 eyh (by rw [sh2]; exact hn)⟩

/-! ### LSTM -/

/-- the relation between the (hidden, cell) state of the sample and of the batch -/
def RowRel2 (n hidden : Nat) (st' st : Tensor α × Tensor α) : Prop :=
  RowRel n hidden st'.1 st.1 ∧ RowRel n hidden st'.2 st.2

theorem lstm_step_sample (A : Arith α) (f g h : α → α) (d : RecDims) (X W R : Tensor α)
    (B P : Option (Tensor α))
    (hX : X.shape = [d.seq, d.batch, d.input]) (n : Nat) (hn : n < d.batch)
    (t : Nat) (st st' : Tensor α × Tensor α) (ht : t < d.seq) (hr : RowRel2 n d.hidden st' st) :
    RowRel2 n d.hidden (lstmStepS A f g h (sampleDims d) (takeBatch 1 n X) W R B P t st')
      (lstmStepS A f g h d X W R B P t st) := by
  have gp : ∀ gi j, gatePre A 4 d.hidden d.input W R B (fun i => (takeBatch 1 n X).get [t, 0, i])
      (fun k => st'.1.get [0, k]) gi j =
      gatePre A 4 d.hidden d.input W R B (fun i => X.get [t, n, i]) (fun k => st.1.get [n, k]) gi j :=
    fun gi j => gatePre_congr A 4 d.hidden d.input W R B _ _ _ _ gi j
      (fun l hl => x_sample X d hX n t l ht hl) (fun l hl => hr.1 l hl)
  constructor
  · intro k hk
    unfold lstmStepS
    simp only [sampleDims_batch, sampleDims_hidden, sampleDims_input]
    rw [ofFn_get2 _ _ _ _ _ (by omega) hk, ofFn_get2 _ _ _ _ _ hn hk]
    simp only [List.getD_cons_zero, List.getD_cons_succ]
    rw [ofFn_get2 _ _ _ _ _ (by omega) hk, ofFn_get2 _ _ _ _ _ hn hk]
    simp only [List.getD_cons_zero, List.getD_cons_succ, gp, hr.2 k hk]
  · intro k hk
    unfold lstmStepS
    simp only [sampleDims_batch, sampleDims_hidden, sampleDims_input]
    rw [ofFn_get2 _ _ _ _ _ (by omega) hk, ofFn_get2 _ _ _ _ _ hn hk]
    simp only [List.getD_cons_zero, List.getD_cons_succ, gp, hr.2 k hk]

theorem optShape_sample (C0 : Option (Tensor α)) (d : RecDims) (n : Nat)
    (h : optShapeOk C0 [1, d.batch, d.hidden] = true) :
    optShapeOk (C0.map (takeBatch 1 n)) [1, 1, d.hidden] = true := by
  rw [optShapeOk_iff] at h ⊢
  intro t ht
  cases C0 with
  | none => simp at ht
  | some c =>
    simp only [Option.map_some, Option.some.injEq] at ht
    subst ht
    simp [takeBatch, h c rfl]

theorem lstm_spec_sample (A : Arith α) (f g h : α → α) (d : RecDims) (X W R : Tensor α)
    (B H0 C0 P : Option (Tensor α))
    (s : Tensor α × Tensor α × Tensor α) (hs : Spec.lstm A f g h d X W R B H0 C0 P = some s)
    (n : Nat) (hn : n < d.batch) :
    ∃ s', Spec.lstm A f g h (sampleDims d) (takeBatch 1 n X) W R B (H0.map (takeBatch 1 n))
        (C0.map (takeBatch 1 n)) P = some s' ∧
      Equiv s'.1 (takeBatch 2 n s.1) ∧ Equiv s'.2.1 (takeBatch 1 n s.2.1) ∧ Equiv s'.2.2 (takeBatch 1 n s.2.2) ∧
      s.1.shape = [d.seq, 1, d.batch, d.hidden] ∧ s.2.1.shape = [1, d.batch, d.hidden] ∧
      s.2.2.shape = [1, d.batch, d.hidden] := by
  rw [lstm_spec_eq] at hs ⊢
  split at hs
  · cases hs
  next hc =>
  simp only [not_or, Bool.not_eq_false, Bool.not_eq_eq_eq_not, Bool.not_true] at hc
  obtain ⟨hok, hseq, hcok, hpok⟩ := hc
  have hok : recShapesOk 4 d X W R B H0 = true := by simpa using hok
  have hcok : optShapeOk C0 [1, d.batch, d.hidden] = true := by simpa using hcok
  have hpok : optShapeOk P [1, 3 * d.hidden] = true := by simpa using hpok
  have hok' := shapes_sample 4 d X W R B H0 n hok
  have hcok' := optShape_sample C0 d n hcok
  have hcond : ¬ ((!recShapesOk 4 (sampleDims d) (takeBatch 1 n X) W R B (H0.map (takeBatch 1 n))) = true ∨
      (sampleDims d).seq = 0 ∨
      (!optShapeOk (C0.map (takeBatch 1 n)) [1, (sampleDims d).batch, (sampleDims d).hidden]) = true ∨
      (!optShapeOk P [1, 3 * (sampleDims d).hidden]) = true) := by
    rw [hok', sampleDims_batch, sampleDims_hidden, hcok', hpok]; simpa [sampleDims] using hseq
  rw [if_neg hcond]
  simp only [sampleDims_seq, sampleDims_batch, sampleDims_hidden]
  cases hs
  obtain ⟨hX, _, _, _, hH⟩ := (recShapesOk_iff _ _ _ _ _ _ _).1 hok
  have hC := (optShapeOk_iff _ _).1 hcok
  obtain ⟨i1, i2⟩ := iterate_rel (RowRel2 n d.hidden) (lstmStepS A f g h d X W R B P)
    (lstmStepS A f g h (sampleDims d) (takeBatch 1 n X) W R B P) (·.1) d.seq
    (fun t s s' ht hr => lstm_step_sample A f g h d X W R B P hX n hn t s s' ht hr)
    d.seq 0 (initS A.zero H0 d.batch d.hidden, initS A.zero C0 d.batch d.hidden)
    (initS A.zero (H0.map (takeBatch 1 n)) 1 d.hidden, initS A.zero (C0.map (takeBatch 1 n)) 1 d.hidden)
    (by omega) ⟨init_sample A.zero H0 d n hn hH, init_sample A.zero C0 d n hn hC⟩
  refine ⟨_, rfl, ?_, ?_, ?_, rfl, rfl, rfl⟩
  · apply stack_sample _ _ d n hn
    intro t ht
    obtain ⟨u, u', e1, e2, e3⟩ := i1 t ht
    simp only [List.getD, e1, e2, Option.getD_some]
    exact e3.1
  · exact final_sample _ _ d.batch d.hidden n hn i2.1
  · exact final_sample _ _ d.batch d.hidden n hn i2.2

theorem lstm_batch_partial (A : Arith α) (one : α) (hone : ∀ v, A.mul v one = v)
    (getAct : String → Option (α → α)) (n1 n2 n3 : String) (f g h : α → α)
    (h1 : getAct n1 = some f) (h2 : getAct n2 = some g) (h3 : getAct n3 = some h)
    (d : Spec.RecDims) (X W R : Tensor α) (B H0 C0 P : Option (Tensor α))
    (hh : 2 ≤ d.hidden) (hi : 2 ≤ d.input) (hb : 1 ≤ d.batch) (hsq : 1 ≤ d.seq)
    (hWH : ∀ t, H0 = some t → t.WF) (hWC : ∀ t, C0 = some t → t.WF)
    (s : Tensor α × Tensor α × Tensor α) (hs : Spec.lstm A f g h d X W R B H0 C0 P = some s)
    (n : Nat) (hn : n < d.batch) :
    ∃ y yh yc y1 yh1 yc1,
      lstmOp A one getAct { hiddenSize := d.hidden, activations := [n1, n2, n3] } X W R B none H0 C0 P = .ok (y, yh, yc) ∧
      lstmOp A one getAct { hiddenSize := d.hidden, activations := [n1, n2, n3] } (takeBatch 1 n X) W R B none
        (H0.map (takeBatch 1 n)) (C0.map (takeBatch 1 n)) P = .ok (y1, yh1, yc1) ∧
      Equiv y1 (takeBatch 2 n y) ∧ Equiv yh1 (takeBatch 1 n yh) ∧ Equiv yc1 (takeBatch 1 n yc) := by
  obtain ⟨y, yh, yc, e, ey, eyh, eyc⟩ := Recurrent.lstm_partial A one hone getAct n1 n2 n3 f g h h1 h2 h3 d X W R B H0 C0 P
    hh hi hb hsq hWH hWC s hs
  obtain ⟨s', hs', q1, q2, q3, sh1, sh2, sh3⟩ := lstm_spec_sample A f g h d X W R B H0 C0 P s hs n hn
  obtain ⟨y1, yh1, yc1, e1, ey1, eyh1, eyc1⟩ := Recurrent.lstm_partial A one hone getAct n1 n2 n3 f g h h1 h2 h3
    (sampleDims d) (takeBatch 1 n X) W R B (H0.map (takeBatch 1 n)) (C0.map (takeBatch 1 n)) P hh hi (Nat.le_refl 1) hsq
    (WF_map_takeBatch H0 n) (WF_map_takeBatch C0 n) s' hs'
  exact ⟨y, yh, yc, y1, yh1, yc1, e, e1, chain 2 n ey1 q1 ey (by rw [sh1]; exact hn),
    chain 1 n eyh1 q2 eyh (by rw [sh2]; exact hn), chain 1 n eyc1 q3 eyc (by rw [sh3]; exact hn)⟩

end Gonnx.Proofs.Batch2
