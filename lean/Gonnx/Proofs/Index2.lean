import Gonnx.Ops.Index
import Gonnx.Spec.Index
import Gonnx.Proofs.Index
/-
Helper lemmas for Theorems/C08b.lean (Slice on several axes).
-/
namespace Gonnx.Proofs.Index2
open Gonnx Gonnx.Spec Gonnx.Proofs Gonnx.Proofs.Index
variable {α : Type} [Inhabited α]

/-! ### duplicate-free lists -/

theorem eraseDups_length_le : (l : List Nat) → l.eraseDups.length ≤ l.length
  | [] => by simp
  | a :: as => by
    rw [List.eraseDups_cons]
    have hf := List.length_filter_le (fun b => !b == a) as
    have := eraseDups_length_le (as.filter fun b => !b == a)
    simp only [List.length_cons]
    omega
termination_by l => l.length
decreasing_by
  have := List.length_filter_le (fun b => !b == a) as
  simp only [List.length_cons]
  omega

theorem nodup_of_eraseDups_length (l : List Nat) (h : l.eraseDups.length = l.length) : l.Nodup := by
  induction l with
  | nil => simp
  | cons a as ih =>
    rw [List.eraseDups_cons] at h
    simp only [List.length_cons] at h
    have hf := List.length_filter_le (fun b => !b == a) as
    have he := eraseDups_length_le (as.filter fun b => !b == a)
    have hfl : (as.filter fun b => !b == a).length = as.length := by omega
    have hall := List.length_filter_eq_length_iff.1 hfl
    have hfe : (as.filter fun b => !b == a) = as := List.filter_eq_self.2 hall
    rw [hfe] at h
    rw [List.nodup_cons]
    refine ⟨?_, ih (by omega)⟩
    intro hmem
    have := hall a hmem
    simp at this

/-! ### `constructSlices` with pairwise different axes -/

/-- the non-negative spelling of an axis -/
def normAx (r : Nat) (a : Int) : Nat := (if a < 0 then a + (r : Int) else a).toNat

theorem go_eq (r : Nat) (starts ends steps : List Int) (axs : List Int) (i : Nat) (acc : List (Option Sl))
    (hacc : acc.length = r)
    (h1 : i + axs.length ≤ starts.length) (h2 : i + axs.length ≤ ends.length)
    (h3 : i + axs.length ≤ steps.length)
    (hr : ∀ a ∈ axs, -(r : Int) ≤ a ∧ a < r)
    (hnd : (axs.map (normAx r)).Nodup) :
    constructSlices.go r starts ends steps i axs acc = .ok ((List.range r).map fun j =>
      match (axs.map (normAx r)).findIdx? (· = j) with
      | none => acc.getD j none
      | some k => some ⟨starts.getD (i + k) 0, ends.getD (i + k) 0, steps.getD (i + k) 1⟩) := by
  induction axs generalizing i acc with
  | nil =>
    simp only [constructSlices.go, List.map_nil, List.findIdx?_nil]
    congr 1
    apply List.ext_getElem?
    intro j
    by_cases hj : j < r
    · simp [hj, hacc]
    · simp [hj, List.getElem?_eq_none (by omega : acc.length ≤ j)]
  | cons ax rest ih =>
    simp only [List.length_cons] at h1 h2 h3
    have hax := hr ax (by simp)
    simp only [List.map_cons, List.nodup_cons] at hnd
    unfold constructSlices.go
    rw [List.getElem?_eq_getElem (by omega : i < starts.length),
      List.getElem?_eq_getElem (by omega : i < ends.length),
      List.getElem?_eq_getElem (by omega : i < steps.length)]
    simp only
    rw [if_neg (by split <;> omega)]
    rw [ih (i + 1) _ (by simp [hacc]) (by omega) (by omega) (by omega)
      (fun a ha => hr a (by simp [ha])) hnd.2]
    congr 1
    apply List.map_congr_left
    intro j hj
    have hj : j < r := by simpa using hj
    have htn : (if ax < 0 then (r : Int) + ax else ax).toNat = normAx r ax := by
      unfold normAx; split <;> congr 1; omega
    rw [htn]
    simp only [List.map_cons, List.findIdx?_cons]
    by_cases hja : normAx r ax = j
    · subst hja
      have hnone : List.findIdx? (fun x => decide (x = normAx r ax)) (List.map (normAx r) rest) = none := by
        rw [List.findIdx?_eq_none_iff]
        intro x hx
        simp only [decide_eq_false_iff_not]
        intro h; subst h; exact hnd.1 hx
      rw [hnone]
      simp [hacc, hj, List.getElem?_eq_getElem (by omega : i < starts.length),
        List.getElem?_eq_getElem (by omega : i < ends.length),
        List.getElem?_eq_getElem (by omega : i < steps.length)]
    · simp only [hja, decide_false, Bool.false_eq_true, if_false]
      cases hfi : List.findIdx? (fun x => decide (x = j)) (List.map (normAx r) rest) with
      | none =>
        simp only [Option.map_none]
        simp [hja]
      | some k =>
        simp only [Option.map_some]
        have : i + 1 + k = i + (k + 1) := by omega
        rw [this]

/-! ### the per-axis selections of a request given as a function `q : axis ↦ optional slice` -/

/-- extent ⌈(min(stop, d) - start) / step⌉ as an integer -/
def extQ (d : Nat) (sl : Sl) : Int := (clampEnd d sl.stop - sl.start + sl.step - 1) / sl.step

/-- ONNX selection of axis `j` -/
def specQ (shape : List Nat) (q : Nat → Option Sl) (j : Nat) : Int × Int × Nat :=
  match q j with
  | none => (0, 1, dim shape j)
  | some sl => (sl.start, sl.step, (extQ (dim shape j) sl).toNat)

/-- gorgonia's selection of axis `j` -/
def modelQ (shape : List Nat) (q : Nat → Option Sl) (j : Nat) : AxisSel × Int × Int :=
  match q j with
  | none => (⟨0, dim shape j, 1, false⟩, 0, dim shape j)
  | some sl => (⟨sl.start.toNat, (extQ (dim shape j) sl).toNat, sl.step.toNat,
      decide (extQ (dim shape j) sl = 1)⟩, sl.start, clampEnd (dim shape j) sl.stop)

/-- what the proof needs on every sliced axis -/
def GoodQ (shape : List Nat) (q : Nat → Option Sl) : Prop :=
  ∀ j, j < shape.length → ∀ sl, q j = some sl →
    0 ≤ sl.start ∧ sl.start < dim shape j ∧ sl.start < sl.stop ∧ 1 ≤ sl.step ∧
    2 ≤ extQ (dim shape j) sl ∧ (j = 0 → (clampEnd (dim shape j) sl.stop - sl.start) % sl.step = 0)

theorem good_facts {shape : List Nat} {q : Nat → Option Sl} (h : GoodQ shape q) {j : Nat}
    (hj : j < shape.length) {sl : Sl} (hq : q j = some sl) :
    sl.start + 2 ≤ clampEnd (dim shape j) sl.stop ∧ clampEnd (dim shape j) sl.stop ≤ (dim shape j : Int) := by
  obtain ⟨_, _, _, hst, hN, _⟩ := h j hj sl hq
  constructor
  · unfold extQ at hN
    have := (Int.le_ediv_iff_mul_le (by omega : 0 < sl.step)).1 hN
    omega
  · unfold clampEnd; split <;> omega

theorem axisSels_Q (shape : List Nat) (q : Nat → Option Sl) (h : GoodQ shape q) :
    axisSels 0 shape ((List.range shape.length).map q) =
      .ok ((List.range shape.length).map (modelQ shape q)) := by
  apply axisSels_ok
  intro j hj
  rw [Nat.zero_add]
  have hget : ((List.range shape.length).map q).getD j none = q j := by
    simp [hj]
  rw [hget]
  unfold modelQ
  cases hq : q j with
  | none => rfl
  | some sl =>
    obtain ⟨h0, h1, h2, h3, _, h5⟩ := h j hj sl hq
    exact axisSel_eq j (dim shape j) sl.start sl.stop sl.step h0 h1 h2 h3 h5

/-! ### the first and last flat offsets of the selection -/

/-- Σ (last - first) · stride over the axes -/
def gapSum : List Nat → (Nat → AxisSel × Int × Int) → Int
  | [], _ => 0
  | _ :: rest, g => ((g 0).2.2 - (g 0).2.1 - 1) * (prod rest : Int) + gapSum rest (fun j => g (j + 1))

theorem nd_gap (shape : List Nat) (g : Nat → AxisSel × Int × Int) :
    List.foldl (fun acc x => acc - x) ((prod shape : Nat) : Int)
      (List.zipWith (fun (x : (AxisSel × Int × Int) × Nat) (s : Nat) => ((x.snd : Int) - x.fst.snd.snd) * (s : Int))
        ((List.map g (List.range shape.length)).zip shape) (strides shape)) -
    List.foldl (fun x1 x2 => x1 + x2) 0
      (List.zipWith (fun (a : AxisSel × Int × Int) (s : Nat) => a.snd.fst * (s : Int))
        (List.map g (List.range shape.length)) (strides shape)) = 1 + gapSum shape g := by
  rw [foldl_sub_eq, foldl_add_eq]
  induction shape generalizing g with
  | nil => simp [gapSum, strides]
  | cons d rest ih =>
    have := ih (fun j => g (j + 1))
    simp only [List.length_cons, List.range_succ_eq_map, List.map_cons, List.map_map, strides,
      List.zip_cons_cons, List.zipWith_cons_cons, List.sum_cons, gapSum, prod_cons, Int.natCast_mul]
    have hc : (g ∘ Nat.succ) = fun j => g (j + 1) := rfl
    rw [hc]
    have e1 : ((d : Int) - (g 0).2.2) * (prod rest : Int) =
        (d : Int) * (prod rest : Int) - (g 0).2.2 * (prod rest : Int) := Int.sub_mul ..
    have e2 : ((g 0).2.2 - (g 0).2.1 - 1) * (prod rest : Int) =
        (g 0).2.2 * (prod rest : Int) - (g 0).2.1 * (prod rest : Int) - (prod rest : Int) := by
      rw [Int.sub_mul, Int.sub_mul, Int.one_mul]
    rw [e1, e2]
    omega

theorem gapSum_nonneg (shape : List Nat) (g : Nat → AxisSel × Int × Int)
    (h : ∀ j, j < shape.length → (g j).2.1 + 1 ≤ (g j).2.2) : 0 ≤ gapSum shape g := by
  induction shape generalizing g with
  | nil => simp [gapSum]
  | cons d rest ih =>
    simp only [gapSum]
    have h0 := h 0 (by simp)
    have := ih (fun j => g (j + 1)) (fun j hj => h (j + 1) (by simp; omega))
    have : 0 ≤ ((g 0).2.2 - (g 0).2.1 - 1) * (prod rest : Int) :=
      Int.mul_nonneg (by omega) (by omega)
    omega

theorem gapSum_pos (shape : List Nat) (g : Nat → AxisSel × Int × Int) (hpos : Pos shape)
    (h : ∀ j, j < shape.length → (g j).2.1 + 1 ≤ (g j).2.2)
    (j0 : Nat) (hj0 : j0 < shape.length) (h2 : (g j0).2.1 + 2 ≤ (g j0).2.2) : 1 ≤ gapSum shape g := by
  induction shape generalizing g j0 with
  | nil => simp at hj0
  | cons d rest ih =>
    simp only [gapSum]
    have hposr : Pos rest := fun n hn => hpos n (by simp [hn])
    have hP := prod_pos_of_Pos hposr
    have hrest : ∀ j, j < rest.length → (g (j + 1)).2.1 + 1 ≤ (g (j + 1)).2.2 :=
      fun j hj => h (j + 1) (by simp; omega)
    cases j0 with
    | zero =>
      have := gapSum_nonneg rest (fun j => g (j + 1)) hrest
      have : (1 : Int) * 1 ≤ ((g 0).2.2 - (g 0).2.1 - 1) * (prod rest : Int) :=
        Int.mul_le_mul (by omega) (by omega) (by omega) (by omega)
      omega
    | succ j0 =>
      have h0 := h 0 (by simp)
      have := ih (fun j => g (j + 1)) hposr hrest j0 (by simpa using hj0) h2
      have : 0 ≤ ((g 0).2.2 - (g 0).2.1 - 1) * (prod rest : Int) :=
        Int.mul_nonneg (by omega) (by omega)
      omega

theorem exists_dim_ge_two (shape : List Nat) (hpos : Pos shape) (h : 2 ≤ prod shape) :
    ∃ j, j < shape.length ∧ 2 ≤ dim shape j := by
  induction shape with
  | nil => simp at h
  | cons d rest ih =>
    by_cases hd : 2 ≤ d
    · exact ⟨0, by simp, by simpa [dim_cons_zero] using hd⟩
    · have hd1 : d = 1 := by have := hpos d (by simp); omega
      subst hd1
      simp only [prod_cons, Nat.one_mul] at h
      obtain ⟨j, hj, hj2⟩ := ih (fun n hn => hpos n (by simp [hn])) h
      exact ⟨j + 1, by simpa using hj, by simpa [dim_cons_succ] using hj2⟩

/-! ### gorgonia's slice against the ONNX index formula, request given as `q` -/

/-- the ONNX result for the request `q` -/
def specT (t : Tensor α) (q : Nat → Option Sl) : Tensor α :=
  ofFn ((List.range t.shape.length).map fun j => (specQ t.shape q j).2.2) fun idx =>
    t.get (List.zipWith (fun (s : Int × Int × Nat) (i : Nat) => (s.1 + (i : Int) * s.2.1).toNat)
      ((List.range t.shape.length).map (specQ t.shape q)) idx)

theorem gSlice_rank0 (t : Tensor α) (q : Nat → Option Sl) (h0 : t.shape = []) :
    ∃ m, gSlice t ((List.range t.shape.length).map q) = .ok m ∧ Equiv m (specT t q) := by
  unfold gSlice specT
  simp only [h0, List.length_nil, List.range_zero, List.map_nil, axisSels, strides]
  refine ⟨_, rfl, ?_⟩
  refine ⟨rfl, ?_, ofFn_WF _ _, ?_⟩
  · simp [Tensor.WF]
  · intro idx hidx
    simp [ofFn, allIdx, Tensor.get, h0, ravel]

theorem gSlice_multi (t : Tensor α) (q : Nat → Option Sl) (hpos : Pos t.shape)
    (hgood : GoodQ t.shape q)
    (hnc : (∃ j, j < t.shape.length ∧ (q j).isSome) ∨ 2 ≤ prod t.shape) :
    ∃ m, gSlice t ((List.range t.shape.length).map q) = .ok m ∧ Equiv m (specT t q) := by
  unfold gSlice
  rw [if_neg (by simp)]
  rw [axisSels_Q t.shape q hgood]
  simp only
  -- every axis spans at least one position, some axis at least two
  have hspan : ∀ j, j < t.shape.length → (modelQ t.shape q j).2.1 + 1 ≤ (modelQ t.shape q j).2.2 := by
    intro j hj
    unfold modelQ
    cases hq : q j with
    | none =>
      have : 0 < dim t.shape j := hpos _ (by
        rw [dim_eq, List.getElem?_eq_getElem hj]; simp)
      simp only; omega
    | some sl =>
      have := good_facts hgood hj hq
      simp only; omega
  have htwo : ∃ j, j < t.shape.length ∧ (modelQ t.shape q j).2.1 + 2 ≤ (modelQ t.shape q j).2.2 := by
    rcases hnc with ⟨j, hj, hs⟩ | h2
    · refine ⟨j, hj, ?_⟩
      unfold modelQ
      cases hq : q j with
      | none => simp [hq] at hs
      | some sl =>
        have := good_facts hgood hj hq
        simp only; omega
    · obtain ⟨j, hj, hd⟩ := exists_dim_ge_two t.shape hpos h2
      by_cases hs : (q j).isSome
      · refine ⟨j, hj, ?_⟩
        unfold modelQ
        cases hq : q j with
        | none => simp [hq] at hs
        | some sl =>
          have := good_facts hgood hj hq
          simp only; omega
      · refine ⟨j, hj, ?_⟩
        unfold modelQ
        cases hq : q j with
        | none => simp only; omega
        | some sl => simp [hq] at hs
  obtain ⟨j0, hj0, h2⟩ := htwo
  have hgap := gapSum_pos t.shape (modelQ t.shape q) hpos hspan j0 hj0 h2
  have hnd := nd_gap t.shape (modelQ t.shape q)
  rw [if_neg (by rw [hnd]; omega)]
  refine ⟨_, rfl, ?_⟩
  have hnodrop : ∀ a ∈ List.map (fun (x : AxisSel × Int × Int) => x.fst)
      (List.map (modelQ t.shape q) (List.range t.shape.length)), a.drop = false := by
    intro a ha
    simp only [List.map_map, List.mem_map, List.mem_range, Function.comp] at ha
    obtain ⟨j, hj, rfl⟩ := ha
    unfold modelQ
    cases hq : q j with
    | none => rfl
    | some sl =>
      obtain ⟨_, _, _, _, hN, _⟩ := hgood j hj sl hq
      simp only [decide_eq_false_iff_not]; omega
  have hfilter : List.filter (fun (x : AxisSel) => !x.drop) (List.map (fun (x : AxisSel × Int × Int) => x.fst)
      (List.map (modelQ t.shape q) (List.range t.shape.length))) =
      List.map (fun (x : AxisSel × Int × Int) => x.fst)
      (List.map (modelQ t.shape q) (List.range t.shape.length)) := by
    rw [List.filter_eq_self]
    intro a ha
    simp [hnodrop a ha]
  rw [hfilter]
  have hshape : List.map (fun (x : AxisSel) => x.ext) (List.map (fun (x : AxisSel × Int × Int) => x.fst)
      (List.map (modelQ t.shape q) (List.range t.shape.length))) =
      List.map (fun j => (specQ t.shape q j).snd.snd) (List.range t.shape.length) := by
    simp only [List.map_map]
    apply List.map_congr_left
    intro j _
    simp only [Function.comp, modelQ, specQ]
    split <;> rfl
  rw [hshape]
  unfold specT
  refine ⟨rfl, ofFn_WF _ _, ofFn_WF _ _, ?_⟩
  intro idx hidx
  simp only [ofFn_shape] at hidx
  rw [get_ofFn _ _ _ hidx, get_ofFn _ _ _ hidx]
  congr 1
  have hlen : idx.length = t.shape.length := by
    rw [InRange_length hidx]; simp
  rw [sliceIndex_nodrop _ _ hnodrop (by simp [hlen])]
  simp only [List.map_map, List.zipWith_map_left]
  apply List.ext_getElem?
  intro k
  simp only [List.getElem?_zipWith, Function.comp]
  by_cases hk : k < t.shape.length
  · simp only [List.getElem?_range hk]
    cases idx[k]? with
    | none => rfl
    | some i =>
      simp only [modelQ, specQ]
      cases hq : q k with
      | none => simp
      | some sl =>
        obtain ⟨hs0, _, _, hst, _, _⟩ := hgood k hk sl hq
        obtain ⟨a, ha⟩ := Int.eq_ofNat_of_zero_le hs0
        obtain ⟨b, hb⟩ := Int.eq_ofNat_of_zero_le (by omega : 0 ≤ sl.step)
        simp only [ha, hb, Int.toNat_natCast]
        rw [← Int.natCast_mul, ← Int.natCast_add, Int.toNat_natCast]
  · simp [List.getElem?_eq_none (by simpa using Nat.le_of_not_lt hk : (List.range t.shape.length).length ≤ k)]

/-! ### the ONNX side of a multi-axis request -/

/-- the request as a function of the axis: the slice of the first (= only) position of `axes`
naming axis `j` -/
def pickQ (r : Nat) (starts ends axes steps : List Int) (j : Nat) : Option Sl :=
  match (axes.map (normAx r)).findIdx? (· = j) with
  | none => none
  | some i => some ⟨starts.getD i 0, ends.getD i 0, steps.getD i 1⟩

/-- `sel` of `Spec.slice` -/
def selF (shape : List Nat) (starts ends axes steps : List Int) (j : Nat) : Option (Int × Int × Nat) :=
  match (axes.map (normAx shape.length)).findIdx? (· = j) with
  | none => some (0, 1, dim shape j)
  | some i => sliceAxis (dim shape j) (starts.getD i 0) (ends.getD i 0) (steps.getD i 1)

theorem spec_slice_some (t : Tensor α) (starts ends axes steps : List Int) (s : Tensor α)
    (hs : Spec.slice t starts ends axes steps = some s) :
    starts.length = ends.length ∧ axes.length = starts.length ∧ steps.length = starts.length ∧
    (∀ a ∈ axes, -(t.shape.length : Int) ≤ a ∧ a < t.shape.length) ∧
    (axes.map (normAx t.shape.length)).Nodup ∧
    ∃ sels, (List.range t.shape.length).mapM (selF t.shape starts ends axes steps) = some sels ∧
      s = ofFn (sels.map (·.2.2)) fun idx =>
        t.get (List.zipWith (fun (s : Int × Int × Nat) (i : Nat) => (s.1 + (i : Int) * s.2.1).toNat) sels idx) := by
  unfold Spec.slice at hs
  simp only at hs
  split at hs
  · cases hs
  rename_i hlen
  split at hs
  · cases hs
  rename_i hrange
  split at hs
  · cases hs
  rename_i hdup
  split at hs
  · cases hs
  rename_i sels hm
  cases hs
  refine ⟨by omega, by omega, by omega, ?_, ?_, sels, hm, rfl⟩
  · intro a ha
    simp only [Bool.not_eq_true, Bool.not_eq_false', List.all_eq_true, decide_eq_true_eq] at hrange
    exact hrange a ha
  · apply nodup_of_eraseDups_length
    simp only [ne_eq, Decidable.not_not] at hdup
    exact hdup

theorem mapM_some_getElem? {β γ : Type} (f : β → Option γ) (l : List β) (l' : List γ)
    (h : l.mapM f = some l') (k : Nat) : l'[k]? = (l[k]?).bind f := by
  induction l generalizing l' k with
  | nil =>
    simp only [List.mapM_nil] at h
    cases h; simp
  | cons a l ih =>
    rw [List.mapM_cons] at h
    cases hfa : f a with
    | none => simp [hfa] at h
    | some y =>
      cases hml : l.mapM f with
      | none => simp [hfa, hml] at h
      | some ys =>
        simp only [hfa, hml] at h
        cases h
        cases k with
        | zero => simp [hfa]
        | succ k => simpa using ih ys hml k

/-- an ONNX extent ≥ 2 with non-negative start and end forces the start below `min(end, d)` -/
theorem sliceAxis_ext2 (d : Nat) (a b c : Int) (ha : 0 ≤ a) (hb : 0 ≤ b) (hc : 1 ≤ c)
    (h : 2 ≤ ((sliceAxis d a b c).map (·.2.2)).getD 0) : a < d ∧ a < b := by
  unfold sliceAxis at h
  have h1 : ¬ c = 0 := by omega
  have h2 : ¬ a < 0 := by omega
  have h3 : ¬ b < 0 := by omega
  have h4 : c > 0 := by omega
  simp only [h1, h2, h3, h4, if_true, if_false, Option.map_some, Option.getD_some] at h
  have key : ∀ e s : Int, 2 ≤ (if e > s then (e - s + c - 1) / c else 0).toNat → s < e := by
    intro e s h
    split at h
    · assumption
    · simp at h
  have := key _ _ h
  constructor
  · split at this <;> split at this <;> omega
  · split at this <;> split at this <;> omega

theorem constructSlices_eq (r : Nat) (starts ends steps axes : List Int)
    (h1 : axes.length ≤ starts.length) (h2 : axes.length ≤ ends.length) (h3 : axes.length ≤ steps.length)
    (hr : ∀ a ∈ axes, -(r : Int) ≤ a ∧ a < r) (hnd : (axes.map (normAx r)).Nodup) :
    constructSlices r starts ends steps axes = .ok ((List.range r).map (pickQ r starts ends axes steps)) := by
  unfold constructSlices
  rw [go_eq r starts ends steps axes 0 _ (by simp) (by omega) (by omega) (by omega) hr hnd]
  congr 1
  apply List.map_congr_left
  intro j hj
  have hj : j < r := by simpa using hj
  unfold pickQ
  split
  · simp [hj]
  · simp

theorem findIdx_some_facts (r : Nat) (axes : List Int) (j i : Nat)
    (h : (axes.map (normAx r)).findIdx? (· = j) = some i) :
    i < axes.length ∧ normAx r (axes.getD i 0) = j := by
  rw [List.findIdx?_eq_some_iff_getElem] at h
  obtain ⟨hi, hp, _⟩ := h
  have hi' : i < axes.length := by simpa using hi
  refine ⟨hi', ?_⟩
  simp only [List.getElem_map, decide_eq_true_eq] at hp
  rw [← hp]
  simp [hi']

/-- **Slice on several axes**: the guards in unfolded form -/
theorem slice_multi (t : Tensor α) (starts ends axes steps : List Int) (hpos : Pos t.shape)
    (s : Tensor α) (hs : Spec.slice t starts ends axes steps = some s)
    (hempty : axes = [] → t.shape = [] ∨ 2 ≤ prod t.shape)
    (hg : ∀ i, i < axes.length →
      1 ≤ steps.getD i 1 ∧ 0 ≤ starts.getD i 0 ∧ 0 ≤ ends.getD i 0 ∧
      2 ≤ dim s.shape (normAx t.shape.length (axes.getD i 0)) ∧
      (normAx t.shape.length (axes.getD i 0) = 0 →
        (clampEnd (dim t.shape 0) (ends.getD i 0) - starts.getD i 0) % steps.getD i 1 = 0)) :
    ∃ m, sliceOp t starts ends (some axes) (some steps) = .ok m ∧ Equiv m s := by
  obtain ⟨hl1, hl2, hl3, hrange, hnd, sels, hm, rfl⟩ := spec_slice_some t starts ends axes steps s hs
  simp only [ofFn_shape] at hg
  -- the spec extent of axis j
  have hdim : ∀ j, j < t.shape.length →
      dim (sels.map (·.2.2)) j = ((selF t.shape starts ends axes steps j).map (·.2.2)).getD 0 := by
    intro j hj
    rw [dim_eq, List.getElem?_map, mapM_some_getElem? _ _ _ hm j, List.getElem?_range hj]
    simp
  -- the facts on a sliced axis
  have hfacts : ∀ j, j < t.shape.length → ∀ i,
      (axes.map (normAx t.shape.length)).findIdx? (· = j) = some i →
      0 ≤ starts.getD i 0 ∧ starts.getD i 0 < dim t.shape j ∧ starts.getD i 0 < ends.getD i 0 ∧
      1 ≤ steps.getD i 1 ∧ 2 ≤ extQ (dim t.shape j) ⟨starts.getD i 0, ends.getD i 0, steps.getD i 1⟩ ∧
      (j = 0 → (clampEnd (dim t.shape j) (ends.getD i 0) - starts.getD i 0) % steps.getD i 1 = 0) := by
    intro j hj i hfi
    obtain ⟨hi, hji⟩ := findIdx_some_facts _ _ _ _ hfi
    obtain ⟨g1, g2, g3, g4, g5⟩ := hg i hi
    rw [hji, hdim j hj] at g4
    have hsel : selF t.shape starts ends axes steps j =
        sliceAxis (dim t.shape j) (starts.getD i 0) (ends.getD i 0) (steps.getD i 1) := by
      unfold selF; rw [hfi]
    rw [hsel] at g4
    obtain ⟨k1, k2⟩ := sliceAxis_ext2 _ _ _ _ g2 g3 g1 g4
    rw [sliceAxis_eq _ _ _ _ g2 k1 k2 g1] at g4
    simp only [Option.map_some, Option.getD_some] at g4
    refine ⟨g2, k1, k2, g1, ?_, ?_⟩
    · unfold extQ; simp only; omega
    · intro h0; subst h0; exact g5 hji
  have hgood : GoodQ t.shape (pickQ t.shape.length starts ends axes steps) := by
    intro j hj sl hq
    unfold pickQ at hq
    split at hq
    · cases hq
    · rename_i i hfi
      cases hq
      exact hfacts j hj i hfi
  have hm2 : (List.range t.shape.length).mapM (selF t.shape starts ends axes steps) =
      some ((List.range t.shape.length).map (specQ t.shape (pickQ t.shape.length starts ends axes steps))) := by
    apply mapM_some_of_forall
    intro j hj
    have hj : j < t.shape.length := by simpa using hj
    unfold selF specQ pickQ
    split
    · rfl
    · rename_i i hfi
      obtain ⟨f1, f2, f3, f4, _, _⟩ := hfacts j hj i hfi
      rw [sliceAxis_eq _ _ _ _ f1 f2 f3 f4]
      rfl
  rw [hm2] at hm
  cases hm
  have hspec : specT t (pickQ t.shape.length starts ends axes steps) =
      ofFn (((List.range t.shape.length).map
          (specQ t.shape (pickQ t.shape.length starts ends axes steps))).map (·.2.2)) fun idx =>
        t.get (List.zipWith (fun (s : Int × Int × Nat) (i : Nat) => (s.1 + (i : Int) * s.2.1).toNat)
          ((List.range t.shape.length).map (specQ t.shape (pickQ t.shape.length starts ends axes steps))) idx) := by
    unfold specT
    simp only [List.map_map]
    rfl
  rw [← hspec]
  unfold sliceOp
  simp only [Option.getD_some]
  rw [constructSlices_eq _ _ _ _ _ (by omega) (by omega) (by omega) hrange hnd]
  simp only
  by_cases h0 : t.shape = []
  · exact gSlice_rank0 t _ h0
  · apply gSlice_multi t _ hpos hgood
    cases axes with
    | nil =>
      rcases hempty rfl with h | h
      · exact absurd h h0
      · exact Or.inr h
    | cons ax rest =>
      left
      have hax := hrange ax (by simp)
      refine ⟨normAx t.shape.length ax, ?_, ?_⟩
      · unfold normAx; split <;> omega
      · unfold pickQ
        simp [List.findIdx?_cons]

end Gonnx.Proofs.Index2
