import DriverLib.Json
import DriverLib.Tensors
import DriverLib.Ops
import DriverLib.ShapeOps
import DriverLib.IndexOps
import DriverLib.ReduceOps
import DriverLib.Dispatch
import DriverLib.Graph
