import DriverLib.Json
import DriverLib.Tensors
import DriverLib.Ops
import DriverLib.ShapeOps
import DriverLib.IndexOps
import DriverLib.Dispatch
import DriverLib.Graph
