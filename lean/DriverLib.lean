import DriverLib.Json
import DriverLib.Tensors
import DriverLib.Ops
import DriverLib.Graph
