import DriverLib.Json
