import DriverLib.MatMulOps
import Gonnx.Ops.Conv
import Gonnx.Spec.Conv
open Lean
namespace Drv
open Gonnx

def natsOf (l : Option (List Int)) : List Nat := (l.getD []).map Int.toNat

def runConvOp (attrs : Json) (ins : List (Option DT)) : Answer :=
  match ins with
  | [some ⟨_, _, some _⟩, some _, _] | [some _, some ⟨_, _, some _⟩, _] =>
    -- operands carried bit for bit (special values, fractions): judged by the direct convolution of the comparator
    { model := { status := "unmodelled" }, tags := ["float-bits"] }
  | [some X, some W, B] =>
    let names := attrNames attrs
    if names.any (fun n => !["auto_pad", "dilations", "group", "kernel_shape", "pads", "strides"].contains n) then
      { model := .ofErr .attr, spec := { domain := "mayRefuse" }, tags := ["bad-attr"] }
    else if names.contains "group" && attrInt attrs "group" 1 != 1 then
      { model := .ofErr .attr, spec := { domain := "mayRefuse" }, tags := ["group"] }
    else
      let mode := attrStr attrs "auto_pad" "NOTSET"
      let dil := natsOf (attrInts attrs "dilations")
      let strides := natsOf (attrInts attrs "strides")
      let pads := (attrInts attrs "pads").getD []
      let ks := natsOf (attrInts attrs "kernel_shape")
      let at0 : ConvAttrs := { autoPad := mode, dilations := dil, kernelShape := ks, pads := pads, strides := strides }
      let dtsOk := X.dt == W.dt && (match B with | some b => b.dt == X.dt | none => true)
      let tags := [s!"rank{X.t.rank}", mode, if B.isSome then "bias" else "nobias",
        if dil.any (· > 1) then "dilated" else "undilated", if strides.any (· > 1) then "strided" else "unit-stride",
        if pads.any (· != 0) then "padded" else "unpadded"]
      if !dtsOk then { model := { status := "unmodelled" }, spec := { domain := "mayRefuse" }, tags := tags ++ ["mixed-dtype"] }
      else
        let sp := if pads.any (· < 0) then none else Spec.conv intArith mode dil strides (pads.map Int.toNat) X.t W.t (B.map (·.t))
        let ns := X.t.rank - 2
        let dk := List.zipWith (fun k d => (k - 1) * d + 1) (W.t.shape.drop 2) (if dil.isEmpty then List.replicate ns 1 else dil)
        let C := dim X.t.shape 1
        -- guards of the partial theorem (DESIGN section 8 C05)
        let g1 := if dk.any (· == 1) && !(C == 1 && dk.all (· == 1)) then ["conv.kernel_extent_1"] else []
        let g2 := if mode == "VALID" then ["conv.auto_pad_valid"] else []
        let st := if strides.isEmpty then List.replicate ns 1 else strides
        let negPad := mode != "NOTSET" && (List.range ns).any fun i =>
          let d := dim (X.t.shape.drop 2) i; let s := dim st i; let k := dim dk i
          ((d + s - 1) / s - 1) * s + k < d
        let g0 := if negPad then ["conv.auto_pad_negative_padding"] else []
        let g3 := if sp.isNone then ["conv.kernel_larger_than_input"] else []
        { model := (okT X.dt (convOp intArith at0 X.t W.t (B.map (·.t)))).checkExact, tags, guard := g0 ++ g3 ++ g1 ++ g2,
          spec := match sp with
            | some t => { domain := "must", outs := some [some (DT.mk X.dt t none)] }
            | none => { domain := "mayRefuse" } }
  | _ => { model := { status := "unmodelled" } }

end Drv
