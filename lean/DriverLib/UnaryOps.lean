import DriverLib.ShapeOps
import Gonnx.Ops.Unary
import Gonnx.Ops.Const
open Lean
namespace Drv
open Gonnx

def r32 (x : Float) : Float := x.toFloat32.toFloat

/-- the scalar function of a float unary operator, as the Go code computes it -/
def floatFn (op : String) (dt : DType) : Option (Float → Float) :=
  let rnd : Float → Float := if dt == .f32 then r32 else id
  let viaF64 (f : Float → Float) : Option (Float → Float) := some fun x => rnd (f x)
  match op with
  | "Abs" => some Float.abs
  | "Relu" => some (reluScalar (fun a b => rnd (a * b)) (fun x => if x > 0.0 then 1.0 else 0.0))
  | "Sigmoid" => some (sigmoidScalar (fun x => -x) (fun x => rnd (Float.exp x)) (fun a b => rnd (a + b)) (fun a b => rnd (a / b)) 1.0)
  | "Tanh" => viaF64 Float.tanh
  | "Sin" => viaF64 Float.sin | "Cos" => viaF64 Float.cos | "Tan" => viaF64 Float.tan
  | "Asin" => viaF64 Float.asin | "Acos" => viaF64 Float.acos | "Atan" => viaF64 Float.atan
  | "Sinh" => viaF64 Float.sinh | "Cosh" => viaF64 Float.cosh
  | "Asinh" => viaF64 Float.asinh | "Acosh" => viaF64 Float.acosh | "Atanh" => viaF64 Float.atanh
  | _ => none

def isUnaryOp (op : String) : Bool :=
  ["Abs", "Relu", "Sigmoid", "Tanh", "Sin", "Cos", "Tan", "Asin", "Acos", "Atan", "Sinh", "Cosh",
   "Asinh", "Acosh", "Atanh", "Not", "PRelu"].contains op

/-- ONNX PRelu: slope unidirectionally broadcast to x; `y = x < 0 ? slope * x : x` -/
def specPRelu {α : Type} [Inhabited α] (lt0 : α → Bool) (mul : α → α → α) (x slope : Tensor α) : Option (Tensor α) :=
  if Spec.Compatible x.shape slope.shape && Spec.bshape x.shape slope.shape == x.shape then
    some (ofFn x.shape fun idx => let v := x.get idx; if lt0 v then mul (slope.get (Spec.pin slope.shape idx)) v else v)
  else none

def isUnsigned (dt : DType) : Bool := dt == .u8 || dt == .u16 || dt == .u32 || dt == .u64

def runUnaryOp (op : String) (_attrs : Json) (ins : List (Option DT)) : Answer :=
  match op, ins with
  | "PRelu", [some X, some S] =>
    (match X.fl, S.fl with
    | some xf, some sf =>
      let rnd : Float → Float := if X.dt == .f32 then r32 else id
      let model : Outcome := if X.t.rank == 0 then .ofErr .other else match preluOp (fun v => v < 0.0) (fun s v => rnd (s * v)) xf sf with
        | .ok t => { status := "ok", outs := [some (DT.ofFloat X.dt t)] }
        | .error e => .ofErr e
      { model, tags := ["float"], guard := if X.t.rank == 0 then ["prelu.scalar_input"] else [],
        spec := match specPRelu (fun v => v < 0.0) (fun s v => rnd (s * v)) xf sf with
          | some t => { domain := "must", outs := some [some (DT.ofFloat X.dt t)] }
          | none => { domain := "mustRefuse" } }
    | none, none =>
      let lt0 : Int → Bool := fun v => !isUnsigned X.dt && v < 0
      let model : Outcome := if X.t.rank == 0 then .ofErr .other else match preluOp lt0 (fun s v => wrap X.dt (s * v)) X.t S.t with
        | .ok t => { status := "ok", outs := [some (DT.mk X.dt t none)] }
        | .error e => .ofErr e
      { model := model.checkExact, tags := ["int"], guard := if X.t.rank == 0 then ["prelu.scalar_input"] else [],
        spec := match specPRelu lt0 (fun s v => wrap X.dt (s * v)) X.t S.t with
          | some t => { domain := "must", outs := some [some (DT.mk X.dt t none)] }
          | none => { domain := "mustRefuse" } }
    | _, _ => { model := { status := "unmodelled" } })
  | "Not", [some X] =>
    let out := DT.mk .bool (unaryOp (fun v => if v == 0 then (1 : Int) else 0) X.t) none
    { model := { status := "ok", outs := [some out] }, spec := { domain := "must", outs := some [some out] }, tags := ["bool"] }
  | _, [some X] =>
    (match X.fl with
    | some f =>
      match floatFn op X.dt with
      | some fn =>
        -- corners of the third-party math libraries that the scalar functions of the driver do not share:
        -- chewxy/math32.Exp returns 0 for arguments above 2^31 (Sigmoid on float32), Go's math.Sinh/Cosh
        -- overflow to Inf slightly before the true result does, Sin/Cos/Tan of huge arguments
        let hugeExp32 := X.dt == .f32 && op == "Sigmoid" && f.data.any (fun x => x.abs > 1.0e9)
        let nearOvf := (op == "Sinh" || op == "Cosh") && f.data.any (fun x => x.abs > 709.0 && x.abs < 711.0)
        let hugeTrig := (op == "Sin" || op == "Cos" || op == "Tan") && f.data.any (fun x => x.abs > 1.0e6 && x.abs < 1.0e400)
        { model := if hugeExp32 || nearOvf || hugeTrig then { status := "unmodelled" } else { status := "ok", outs := [some (DT.ofFloat X.dt (unaryOp fn f))] },
          tags := ["float"],
          guard := (if op == "Relu" && f.data.any (fun x => x == -(1.0/0.0)) then ["relu.neg_inf"] else []) ++
                   (if hugeExp32 then ["sigmoid.f32_huge_argument"] else []) ++ (if nearOvf then ["sinh_cosh.near_overflow"] else []) }
      | none => { model := { status := "unmodelled" } }
    | none =>
      if op == "Abs" then
        if isUnsigned X.dt then { model := .ofErr .gorgonia, tags := ["unsigned"], guard := ["abs.unsigned"],
                                  spec := { domain := "must", outs := some [some X] } }
        else if isFloat X.dt || isInt X.dt then
          let out := DT.mk X.dt (unaryOp (fun v => wrap X.dt v.natAbs) X.t) none
          { model := { status := "ok", outs := [some out] }, spec := { domain := "must", outs := some [some out] }, tags := ["int"] }
        else { model := { status := "unmodelled" } }
      else if op == "Relu" && isFloat X.dt then
        { model := { status := "ok", outs := [some (DT.mk X.dt (unaryOp (fun v => if v > 0 then v else 0) X.t) none)] }, tags := ["exact"] }
      else { model := { status := "unmodelled" } })
  | _, _ => { model := { status := "unmodelled" } }

/-- Go's numeric conversion between the ten numeric element types, on exact integer values -/
def convInt (_src tgt : DType) (v : Int) : Int := Gonnx.convTo tgt v

/-- is every value of a float tensor (carried as exact integers) representable in its type? -/
def floatRepresentable (d : DT) : Bool :=
  match d.dt with
  | .f32 => d.t.data.all fun v => roundSig 24 v == v
  | .f64 => d.t.data.all fun v => roundSig 53 v == v
  | _ => true

def isConstOp (op : String) : Bool := op == "Cast" || op == "ConstantOfShape" || op == "Constant"

def jsonTensorAttr (attrs : Json) (name : String) : Option (Option DT) :=
  match attrs with
  | .arr a => match a.toList.find? (fun x => getStr x "name" == name) with
    | some x => parseTensor (getObj x "t")
    | none => some none
  | _ => some none

/-- a tensor attribute the decoder must refuse: an element type it cannot represent, or a payload whose
element count is not the product of the declared extents (C12); `none` when the attribute is absent -/
def tensorAttrUndecodable (attrs : Json) (name : String) : Bool :=
  match attrs with
  | .arr a => match a.toList.find? (fun x => getStr x "name" == name) with
    | some x =>
      let t := getObj x "t"
      let dt := getStr t "dt"
      let shape := jsonInts (getArr t "shape")
      let n := (getArr t "data").size + (getArr t "bits").size
      !(["f32", "f64", "i8", "i16", "i32", "i64", "u8", "u16", "u32", "u64", "bool"].contains dt) ||
        shape.any (· < 0) || (shape.foldl (· * ·) 1) != (n : Int)
    | none => false
  | _ => false

def runConstOp (op : String) (attrs : Json) (ins : List (Option DT)) : Answer :=
  match op, ins with
  | "Cast", [some X] =>
    let names := attrNames attrs
    if names.length != 1 then { model := .ofErr .attr, spec := { domain := "mayRefuse" }, tags := ["attr-count"] }
    else if names != ["to"] then { model := .ofErr .attr, spec := { domain := "mustRefuse" }, tags := ["attr-name"] }
    else
      let to := attrInt attrs "to" 0
      (match X.fl with
      | some f =>
        -- float source (possibly fractional): float targets round, integer targets truncate toward zero
        match castTarget to with
        | none => { model := .ofErr .conversion, spec := { domain := "mustRefuse" }, tags := ["bad-target"] }
        | some tgt =>
          if isFloat tgt then
            let g : Float → Float := if tgt == .f32 then r32 else id
            let out := DT.ofFloat tgt (f.map g)
            { model := { status := "ok", outs := [some out] }, spec := { domain := "must", outs := some [some out] }, tags := ["float-float"] }
          else
            -- Go: float -> unsigned is exact for every value in [0, 2^64); negative values are implementation-defined
            let uns := tgt == .u8 || tgt == .u16 || tgt == .u32 || tgt == .u64
            let conv (x : Float) : Int := if uns && x ≥ 9223372036854775808.0 then (x.toUInt64.toNat : Int) else x.toInt64.toInt
            let out := DT.mk tgt (f.map fun x => wrap tgt (conv x)) none
            if uns && f.data.any (· < 0.0) then
              { model := { status := "unmodelled" }, spec := { domain := "unspecified" }, tags := ["float-int", "negative-to-unsigned"] }
            else
            { model := { status := "ok", outs := [some out] }, spec := { domain := "must", outs := some [some out] }, tags := ["float-int"] }
      | none =>
        let model : Outcome := match castOp convInt X.dt to X.t with
          | .ok (tgt, t) => { status := "ok", outs := [some (DT.mk tgt t none)] }
          | .error e => .ofErr e
        let spec : SpecOut := match castTarget to with
          | none => { domain := "mustRefuse" }
          | some tgt =>
            -- integer targets: in-range values only are specified (the value must be representable in the
            -- target); float targets: every integer is converted, rounded to the significand (ties to even)
            if X.t.data.all (fun v => convInt X.dt tgt v == v) then
              { domain := "must", outs := some [some (DT.mk tgt ⟨X.t.shape, X.t.data⟩ none)] }
            else if isFloat tgt then
              { domain := "must", outs := some [some (DT.mk tgt ⟨X.t.shape, X.t.data.map (convInt X.dt tgt)⟩ none)] }
            else { domain := "unspecified" }
        -- the values of a float SOURCE must be the ones the tensor really holds
        let model := if !floatRepresentable X then { status := "inexact" } else model
        { model := (if (castTarget to).any isFloat then model else model.checkExact), spec := (if !floatRepresentable X then { domain := "unspecified" } else spec),
          tags := [dtToString X.dt ++ "->" ++ toString to] ++ (if (castTarget to).any isFloat && X.t.data.any (fun v => convInt X.dt ((castTarget to).getD .f64) v != v) then ["int-float-rounded"] else []),
          guard := if X.t.rank == 0 && scalarToSliceMissing X.dt then ["cast.scalar_unsigned_source"] else [] })
  | "ConstantOfShape", [some S] =>
    let names := attrNames attrs
    if names.length > 1 then { model := .ofErr .attr, spec := { domain := "mayRefuse" }, tags := ["attr-count"] }
    else if names.length == 1 && names != ["value"] then
      -- "unsupported attributes are refused with an error": an attribute of another name must not be ignored
      { model := .ofErr .attr, spec := { domain := "mustRefuse" }, tags := ["attr-name"] }
    else if tensorAttrUndecodable attrs "value" then
      -- a value tensor the decoder refuses: Init reports it (never the default in its place)
      { model := .ofErr .invalidTensor, spec := { domain := "mustRefuse" }, tags := ["value-undecodable"] }
    else
      match jsonTensorAttr attrs "value" with
      | none => { model := { status := "unmodelled" } }
      | some v =>
        let (vdt, vval, vcount, vrank) := match v with
          | some d => (d.dt, d.t.data.headD 0, d.t.data.length, d.t.rank)
          | none => (DType.f32, (0 : Int), 1, 1)
        if S.t.rank != 1 || S.t.data.isEmpty then
          { model := { status := "unmodelled" }, spec := { domain := "mayRefuse" }, tags := ["shape-not-1d-or-empty"], guard := ["constantofshape.shape_tensor_not_1d_or_empty"] }
        else if vrank == 0 then
          { model := { status := "unmodelled" }, spec := { domain := "unspecified" }, tags := ["scalar-value"], guard := ["constantofshape.scalar_value_tensor"] }
        else if vcount != 1 then
          { model := .ofErr .invalidTensor, spec := { domain := "mustRefuse" }, tags := ["value-count"] }
        else if vdt == .bool then
          { model := .ofErr .gorgonia, tags := ["bool-value"], guard := ["constantofshape.bool_value"],
            spec := if S.t.data.all (· ≥ 1) then { domain := "must", outs := some [some (DT.mk .bool ⟨S.t.data.map Int.toNat, List.replicate (prod (S.t.data.map Int.toNat)) vval⟩ none)] } else { domain := "mayRefuse" } }
        else
          let model : Outcome := match constantOfShapeOp id vval S.t.data with
            | .ok t => { status := "ok", outs := [some (DT.mk vdt t none)] }
            | .error e => .ofErr e
          { model, tags := [dtToString vdt, s!"rank{S.t.data.length}"],
            spec := if S.t.data.all (· ≥ 1) then
                { domain := "must", outs := some [some (DT.mk vdt ⟨S.t.data.map Int.toNat, List.replicate (prod (S.t.data.map Int.toNat)) vval⟩ none)] }
              else { domain := "mayRefuse" } }
  | "Constant", [] =>
    let names := attrNames attrs
    if names.length != 1 then { model := .ofErr .attr, spec := { domain := "mustRefuse" }, tags := ["attr-count"] }
    else
      let a := match attrs with | .arr x => x.getD 0 Json.null | _ => Json.null
      let mk (d : DT) : Answer := { model := { status := "ok", outs := [some d] }, spec := { domain := "must", outs := some [some d] }, tags := [names.headD ""] }
      match names.headD "" with
      | "value" =>
        (match parseTensor (getObj a "t") with
        | some (some d) => mk d
        | _ => { model := { status := "unmodelled" } })
      | "value_float" =>
        (match parseElem (getObj a "f") with
        | some v => mk (DT.mk .f32 ⟨[], [v]⟩ none)
        | none => match a.getObjVal? "f" with
          | .error _ => mk (DT.mk .f32 ⟨[], [0]⟩ none)
          | .ok (.num n) => mk (DT.ofFloat .f32 ⟨[], [r32 n.toFloat]⟩)     -- a fraction: float carrier
          | _ => { model := { status := "unmodelled" } })
      | "value_int" => mk (DT.mk .i64 ⟨[], [getInt a "i" 0]⟩ none)
      | "value_floats" =>
        (match (getArr a "floats").toList.mapM parseElem with
        | some l => if l.isEmpty then { model := { status := "unmodelled" }, spec := { domain := "unspecified" }, tags := ["empty-list"] } else mk (DT.mk .f32 ⟨[l.length], l⟩ none)
        | none =>
          match (getArr a "floats").toList.mapM (fun v => match v with | .num n => some (r32 n.toFloat) | _ => none) with
          | some fl => mk (DT.ofFloat .f32 ⟨[fl.length], fl⟩)
          | none => { model := { status := "unmodelled" } })
      | "value_ints" =>
        let l := jsonInts (getArr a "ints")
        if l.isEmpty then { model := { status := "unmodelled" }, spec := { domain := "unspecified" }, tags := ["empty-list"] } else mk (DT.mk .i64 ⟨[l.length], l⟩ none)
      | _ => { model := .ofErr .attr, spec := { domain := "mustRefuse" }, tags := ["unsupported-attr"] }
  | _, _ => { model := { status := "unmodelled" } }

end Drv
