import DriverLib.MatMulOps
import Gonnx.Ops.Recurrent
import Gonnx.Spec.Recurrent
open Lean
namespace Drv
open Gonnx

def attrStrings (attrs : Json) (name : String) : Option (List String) :=
  match attrs with
  | .arr a => match a.toList.find? (fun x => getStr x "name" == name) with
    | some x => some ((getArr x "strings").toList.map fun v => match v with | .str s => s | _ => "")
    | none => none
  | _ => none

def floatArith : Arith Float := { zero := 0.0, add := (· + ·), mul := (· * ·), sub := (· - ·) }

def intAct : String → Option (Int → Int)
  | "relu" => some fun v => if v > 0 then v else 0
  | _ => none

def floatAct : String → Option (Float → Float)
  | "relu" => some fun v => v * (if v > 0.0 then 1.0 else 0.0)
  | "sigmoid" => some fun v => 1.0 / (1.0 + Float.exp (-v))
  | "tanh" => some Float.tanh
  | _ => none

def knownAct (s : String) : Bool := s == "relu" || s == "sigmoid" || s == "tanh"

/-- run model and spec of one recurrent operator over a carrier -/
def recCore {α : Type} [Inhabited α] (A : Arith α) (one : α) (getAct : String → Option (α → α))
    (op : String) (at0 : RecAttrs) (nOut : Nat) (ins : List (Option (Tensor α))) :
    Res (List (Tensor α)) × Option (List (Tensor α)) :=
  let g (i : Nat) : Option (Tensor α) := (ins.getD i none)
  match g 0, g 1, g 2 with
  | some X, some W, some R =>
    let d : Spec.RecDims := { seq := dim X.shape 0, batch := dim X.shape 1, input := dim X.shape 2, hidden := at0.hiddenSize }
    let acts := at0.activations.map getAct
    match op with
    | "RNN" =>
      let m := (rnnOp A one getAct at0 X W R (g 3) (g 4) (g 5)).map fun (y, yh) => [y, yh]
      let sp := match acts with
        | [some f] => if (g 4).isSome then none else (Spec.rnn A f d X W R (g 3) (g 5)).map fun (y, yh) => [y, yh]
        | _ => none
      (m, sp)
    | "GRU" =>
      let m := (gruOp A one getAct at0 X W R (g 3) (g 4) (g 5)).map fun (y, yh) => [y, yh]
      let sp := match acts with
        | [some f, some gg] => if (g 4).isSome then none else (Spec.gru A one f gg at0.linearBeforeReset d X W R (g 3) (g 5)).map fun (y, yh) => [y, yh]
        | _ => none
      (m, sp)
    | _ =>
      let m : Res (List (Tensor α)) := match lstmOp A one getAct at0 X W R (g 3) (g 4) (g 5) (g 6) (g 7) with
        | .ok (y, yh, yc) => if nOut > 3 then .error .invalidTensor else .ok ([y, yh, yc].take nOut)
        | .error e => .error e
      let sp := match acts with
        | [some f, some gg, some hh] => if (g 4).isSome then none else
            (Spec.lstm A f gg hh d X W R (g 3) (g 5) (g 6) (g 7)).map fun (y, yh, yc) => [y, yh, yc].take nOut
        | _ => none
      (m, sp)
  | _, _, _ => (.error .panic, none)

def runRecOpCore (op : String) (attrs : Json) (ins : List (Option DT)) (nOut : Nat) (skipIF : Bool) : Answer :=
  let names := attrNames attrs
  let allowed := ["activation_alpha", "activation_beta", "activations", "clip", "direction", "hidden_size"] ++
    (if op == "GRU" then ["linear_before_reset"] else if op == "LSTM" then ["input_forget"] else [])
  if names.any (fun n => !allowed.contains n) then { model := .ofErr .attr, spec := { domain := "mayRefuse" }, tags := ["bad-attr"] }
  else if names.contains "clip" then { model := .ofErr .attr, spec := { domain := "mayRefuse" }, tags := ["clip"] }
  else if names.contains "direction" && attrStr attrs "direction" "forward" != "forward" then
    { model := .ofErr .attr, spec := { domain := "mayRefuse" }, tags := ["direction"] }
  else if op == "LSTM" && attrInt attrs "input_forget" 0 == 1 && !skipIF then
    { model := .ofErr .attr, spec := { domain := "mayRefuse" }, tags := ["input_forget"] }
  else
    let defaults := if op == "RNN" then ["tanh"] else if op == "GRU" then ["sigmoid", "tanh"] else ["sigmoid", "tanh", "tanh"]
    let acts := (attrStrings attrs "activations").getD defaults
    let at0 : RecAttrs := { hiddenSize := (attrInt attrs "hidden_size" 0).toNat, activations := acts,
                            linearBeforeReset := attrInt attrs "linear_before_reset" 0 != 0 }
    let dt := match ins.headD none with | some x => x.dt | none => .f32
    let present := ins.filterMap id
    let sameDt := present.all fun (t : DT) => t.dt == dt || t.dt == .i32
    let tags := [op, s!"acts{acts.length}", if at0.linearBeforeReset then "lbr" else "nolbr"] ++
      ((List.range ins.length).filter fun i => i ≥ 3 && (ins.getD i none).isSome).map fun i => s!"in{i}"
    let inMust := dt == .f32 && acts.length == defaults.length && acts.all knownAct && (ins.getD 4 none).isNone && nOut ≤ 3
    let h := at0.hiddenSize
    let inputSize := match ins.headD none with | some x => dim x.t.shape 2 | none => 0
    let guard := (if h == 1 then ["rec.hidden_size_1"] else []) ++ (if inputSize == 1 then ["rec.input_size_1"] else []) ++
      (if acts.length < defaults.length then ["rec.short_activation_list"] else [])
    if !sameDt || dt != .f32 then { model := { status := "unmodelled" }, spec := { domain := "mayRefuse" }, tags := tags ++ ["non-f32"] }
    else if (present.any fun (t : DT) => t.fl.isSome) || acts.any (fun a => a == "sigmoid" || a == "tanh") then
      -- float carrier (float inputs, or transcendental activations on integer-valued inputs): native
      -- floats, compared with a tolerance (testing)
      let fins : List (Option (Tensor Float)) := ins.map fun o => o.bind fun (t : DT) => match t.fl with
        | some f => some f
        | none => some ⟨t.t.shape, t.t.data.map Float.ofInt⟩
      let (m, sp) := recCore floatArith 1.0 floatAct op at0 nOut fins
      { model := match m with
          | .ok outs => { status := "ok", outs := outs.map fun t => some (DT.ofFloat dt t) }
          | .error e => .ofErr e,
        spec := match sp with
          | some outs => { domain := if inMust then "must" else "mayRefuse", outs := some (outs.map fun t => some (DT.ofFloat dt t)) }
          | none => { domain := "mayRefuse" },
        tags := tags ++ ["float"], guard }
    else
      let iins : List (Option (Tensor Int)) := ins.map fun o => o.map (·.t)
      let (m, sp) := recCore intArith 1 intAct op at0 nOut iins
      let model : Outcome := match m with
        | .ok outs => { status := "ok", outs := outs.map fun t => some (DT.mk dt t none) }
        | .error e => .ofErr e
      { model := model.checkExact,
        spec := match sp with
          | some outs => { domain := if inMust then "must" else "mayRefuse", outs := some (outs.map fun t => some (DT.mk dt t none)) }
          | none => { domain := "mayRefuse" },
        tags := tags ++ ["exact"], guard }

def runRecOp (op : String) (attrs : Json) (ins : List (Option DT)) (nOut : Nat) : Answer :=
  let a := runRecOpCore op attrs ins nOut false
  if a.tags == ["input_forget"] then
    -- refused today; if it is ever computed, the coupled gates (f = 1 - i) must make a difference:
    -- the result must not be the one obtained with the attribute ignored
    let ignored := runRecOpCore op attrs ins nOut true
    { a with spec := { domain := "mayRefuse", notOuts := if ignored.model.status == "ok" then some ignored.model.outs else none } }
  else a

def isRecOp (op : String) : Bool := op == "RNN" || op == "GRU" || op == "LSTM"

end Drv
