import DriverLib.Ops
import Gonnx.Spec.Types
import Gonnx.Spec.Arity
import DriverLib.ShapeOps
import DriverLib.IndexOps
import DriverLib.ReduceOps
import DriverLib.UnaryOps
import DriverLib.MatMulOps
import DriverLib.ConvOps
import DriverLib.RecOps
open Lean
namespace Drv
open Gonnx

/-- pad the parsed inputs with absent entries as the gate does -/
def padTo (ins : List (Option DT)) (n : Nat) : List (Option DT) := ins ++ List.replicate (n - ins.length) none

/-- failures of `Init` that are panics: they happen before the gate is consulted -/
def initPanics (op : String) (attrs : Json) : Option String :=
  if op == "LinearRegressor" then
    if !(attrNames attrs).contains "coefficients" then some "linreg.no_coefficients"
    else if (attrNames attrs).contains "targets" && attrInt attrs "targets" 1 == 0 then some "linreg.zero_targets"
    else none
  else none

/-- operator-level case: `Init` attribute errors are modelled per operator; then the gate (over the
regenerated registry); then the operator model -/
def runOpLive (op : String) (attrs : Json) (ins : List (Option DT)) (nOut : Nat := 1) : Answer :=
  match gate Generated.registry op (dtsOf ins) with
  | .error e =>
    if let some g := initPanics op attrs then
      { model := .ofErr .panic, tags := ["gate-refuses", "init-panics"], guard := [g], spec := { domain := "mayRefuse" } }
    else if op == "Cast" && e == .inputType && ins.length == 1 then
      -- C11 quantifies over all ten numeric source types: a numeric source refused by the gate is judged
      -- against the conversion the operator would have to perform
      let a := runConstOp op attrs ins
      { model := .ofErr e, spec := a.spec, tags := ["gate-refuses"], guard := ["cast.source_refused_by_gate"] }
    else
      { model := .ofErr e, tags := ["gate-refuses"],
        spec := { domain := if e == .panic then "unspecified" else "mayRefuse" } }
  | .ok padded =>
    let ins := padTo ins padded.length
    if isArith op || isCmp op || isLogic op then runOpBinary op attrs ins
    else if isShapeOp op then runShapeOp op attrs ins
    else if isIndexOp op then runIndexOp op attrs ins
    else if op == "Concat" then runConcat attrs ins
    else if isReduceOp op then runReduceOp op attrs ins
    else if isUnaryOp op then runUnaryOp op attrs ins
    else if isConstOp op then runConstOp op attrs ins
    else if isMatMulOp op then runMatMulOp op attrs ins
    else if op == "Conv" then runConvOp attrs ins
    else if isRecOp op then runRecOp op attrs ins nOut
    else { model := { status := "unmodelled" } }

/-- the registry with the PINNED arities and element types (Spec/Arity.lean, Spec/Types.lean) in place of
the regenerated ones - identical to the regenerated registry as long as `C15.registry_arity_onnx` and
`C15.registry_types_pinned` hold -/
def pinnedRegistry : List OpDesc := Generated.registry.map fun d =>
  match Spec.typesOf d.name, Spec.arityOf d.name with
  | some c, some (mn, mx) => { d with constraints := c, min := mn, max := mx }
  | _, _ => d

/-- an input list the pinned tables admit but the code's own gate now refuses is judged against what the
operator has to compute for it (the model still mirrors the code: refused) -/
def runOp (op : String) (attrs : Json) (ins : List (Option DT)) (nOut : Nat := 1) : Answer :=
  let live := runOpLive op attrs ins nOut
  match gate Generated.registry op (dtsOf ins), gate pinnedRegistry op (dtsOf ins) with
  | .error e, .ok padded =>
    if op == "Concat" || op == "PRelu" then live
    else
      -- evaluate the operator model as the pinned gate would let it through
      let asAdmitted : Answer :=
        let ins' := padTo ins padded.length
        if isArith op || isCmp op || isLogic op then runOpBinary op attrs ins'
        else if isShapeOp op then runShapeOp op attrs ins'
        else if isIndexOp op then runIndexOp op attrs ins'
        else if isReduceOp op then runReduceOp op attrs ins'
        else if isUnaryOp op then runUnaryOp op attrs ins'
        else if isConstOp op then runConstOp op attrs ins'
        else if isMatMulOp op then runMatMulOp op attrs ins'
        else if op == "Conv" then runConvOp attrs ins'
        else if isRecOp op then runRecOp op attrs ins' nOut
        else { model := { status := "unmodelled" } }
      { asAdmitted with model := .ofErr e, tags := asAdmitted.tags ++ ["gate-refuses-admitted-types"] }
  | _, _ => live

end Drv
