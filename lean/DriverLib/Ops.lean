import DriverLib.Tensors
import Gonnx.Ops.Binary
import Gonnx.Spec.Binary
import Gonnx.Generated.Registry
/-
Operator dispatch of the driver: for a case (operator, attributes, inputs) evaluate the model,
the specification with its domain, and the guard tags.
-/
open Lean
namespace Drv
open Gonnx

structure SpecOut where
  domain : String            -- must mustRefuse mayRefuse unspecified
  outs : Option (List (Option DT)) := none
  pure : Bool := true        -- inputs must not be modified
  /-- a value the result must NOT be (e.g. what the operator computes when an attribute that changes the
  result is silently ignored) -/
  notOuts : Option (List (Option DT)) := none

def SpecOut.json (s : SpecOut) : Json :=
  let b : List (String × Json) := [("domain", s.domain), ("pure", s.pure)]
  let b := match s.outs with
    | some o => b ++ [("outs", Json.arr (o.map optTensorJson).toArray)]
    | none => b
  let b := match s.notOuts with
    | some o => b ++ [("not_outs", Json.arr (o.map optTensorJson).toArray)]
    | none => b
  Json.mkObj b

structure Answer where
  model : Outcome
  spec : SpecOut := { domain := "unspecified" }
  guard : List String := []
  tags : List String := []

def r32F (x : Float) : Float := x.toFloat32.toFloat

def arithKernel (op : String) (dt : DType) : Int → Int → Option Int :=
  fun a b =>
    match op with
    | "Add" => some (wrap dt (a + b))
    | "Sub" => some (wrap dt (a - b))
    | "Mul" => some (wrap dt (a * b))
    | _ => -- Div
      if isInt dt then (if b == 0 then none else some (wrap dt (Int.tdiv a b)))
      else (if b != 0 && a % b == 0 then some (a / b) else none)

def cmpKernel (op : String) : Int → Int → Int :=
  fun a b =>
    let r : Bool := match op with
      | "Equal" => a == b | "Greater" => a > b | "GreaterOrEqual" => a ≥ b
      | "Less" => a < b | _ => a ≤ b
    if r then 1 else 0

def boolKernel (op : String) : Int → Int → Int :=
  fun a b =>
    let x := a != 0; let y := b != 0
    let r : Bool := match op with | "And" => x && y | "Or" => x || y | _ => x != y
    if r then 1 else 0

def isArith (op : String) : Bool := op == "Add" || op == "Sub" || op == "Mul" || op == "Div"
def isCmp (op : String) : Bool :=
  op == "Equal" || op == "Greater" || op == "GreaterOrEqual" || op == "Less" || op == "LessOrEqual"
def isLogic (op : String) : Bool := op == "And" || op == "Or" || op == "Xor"

def coreDt (dt : DType) : Bool := dt == .f32 || dt == .f64 || dt == .i32 || dt == .i64

/-- binary operators (C03) -/
def runBinary (op : String) (A B : DT) : Answer :=
  let compat := Spec.Compatible A.t.shape B.t.shape
  let tags := [if compat then "compatible" else "incompatible",
    if A.t.rank > B.t.rank then "A-longer" else if A.t.rank < B.t.rank then "B-longer" else "same-rank"]
  if isLogic op then
    let model : Outcome := match applyBooleanOp (boolKernel op) A.t B.t with
      | .ok t => { status := "ok", outs := [some (DT.mk .bool t none)] }
      | .error e => .ofErr e
    let spec : SpecOut := match Spec.binary (boolKernel op) A.t B.t with
      | some t => { domain := "must", outs := some [some (DT.mk .bool t none)] }
      | none => { domain := "mustRefuse" }
    { model, spec, tags }
  else if A.dt != B.dt then
    -- gorgonia refuses operands of different element types; ONNX requires equal types
    { model := .ofErr .gorgonia, spec := { domain := "mayRefuse" }, tags := tags ++ ["mixed-dtype"] }
  else if isCmp op && A.dt == .str then
    { model := { status := "unmodelled" }, tags := tags ++ ["string"] }
  else if isCmp op && op != "Equal" && !A.dt.isOrd then
    -- gorgonia: "Typeclass mismatch: not a member of Ord"
    { model := .ofErr .gorgonia, spec := { domain := "mayRefuse" }, tags := tags ++ ["not-ord"] }
  else if isCmp op && isFloat A.dt && (A.fl.isSome || B.fl.isSome) then
    -- IEEE comparisons (every comparison with a NaN is false)
    let toF (d : DT) : Tensor Float := match d.fl with | some f => f | none => ⟨d.t.shape, d.t.data.map Float.ofInt⟩
    let k : Float → Float → Int := fun a b =>
      let r : Bool := match op with
        | "Equal" => a == b | "Greater" => a > b | "GreaterOrEqual" => a ≥ b
        | "Less" => a < b | _ => a ≤ b
      if r then 1 else 0
    let model : Outcome := match applyBinary k .multi (toF A) (toF B) with
      | .ok t => { status := "ok", outs := [some (DT.mk .bool t none)] }
      | .error e => .ofErr e
    let spec : SpecOut := match Spec.binary k (toF A) (toF B) with
      | some t => { domain := "must", outs := some [some (DT.mk .bool t none)] }
      | none => { domain := "mustRefuse" }
    { model, spec, tags := tags ++ ["ieee-exact"] }
  else if isCmp op then
    let model : Outcome := match applyBinary (cmpKernel op) .multi A.t B.t with
      | .ok t => { status := "ok", outs := [some (DT.mk .bool t none)] }
      | .error e => .ofErr e
    let spec : SpecOut := match Spec.binary (cmpKernel op) A.t B.t with
      | some t => { domain := if coreDt A.dt then "must" else "mayRefuse", outs := some [some (DT.mk .bool t none)] }
      | none => { domain := "mustRefuse" }
    { model, spec, tags }
  else if isFloat A.dt && (A.fl.isSome || B.fl.isSome) then
    -- IEEE stream: + - * / are correctly rounded (float32 through float64 and one more rounding is the
    -- correctly rounded float32 result for these four operations), so the comparison is bit for bit
    let toF (d : DT) : Tensor Float := match d.fl with | some f => f | none => ⟨d.t.shape, d.t.data.map Float.ofInt⟩
    let rnd : Float → Float := if A.dt == .f32 then r32F else id
    let k : Float → Float → Float := fun a b =>
      rnd (match op with | "Add" => a + b | "Sub" => a - b | "Mul" => a * b | _ => a / b)
    let model : Outcome := match applyBinary k .multi (toF A) (toF B) with
      | .ok t => { status := "ok", outs := [some (DT.ofFloat A.dt t)] }
      | .error e => .ofErr e
    let spec : SpecOut := match Spec.binary k (toF A) (toF B) with
      | some t => { domain := "must", outs := some [some (DT.ofFloat A.dt t)] }
      | none => { domain := "mustRefuse" }
    -- gorgonia's float Div writes +Inf wherever the divisor is 0, whatever the numerator
    let zeroDiv : Bool := op == "Div" && (toF B).data.any (· == 0.0)
    { model := if zeroDiv then { status := "unmodelled" } else model, spec, tags := tags ++ ["ieee-exact"],
      guard := if zeroDiv then ["div.float_zero_divisor"] else [] }
  else
    -- arithmetic; a `none` of the kernel is an integer ÷0 (error in gorgonia) or, for floats, a value
    -- outside the exact regime
    let k := arithKernel op A.dt
    let model : Outcome := match applyBinaryM k A.t B.t with
      | .ok t => { status := "ok", outs := [some (DT.mk A.dt t none)] }
      | .error e => if isFloat A.dt && e == .gorgonia && compat then { status := "inexact" } else .ofErr e
    let spec : SpecOut :=
      match Spec.binary k A.t B.t with
      | none => { domain := "mustRefuse" }
      | some t =>
        match t.data.mapM id with
        | some d => { domain := if coreDt A.dt then "must" else "mayRefuse", outs := some [some (DT.mk A.dt ⟨t.shape, d⟩ none)] }
        | none => { domain := "mayRefuse" }       -- integer ÷0: ONNX leaves it undefined
    { model := model.checkExact, spec, tags }

def dtsOf (ins : List (Option DT)) : List (Option DType) := ins.map (·.map (·.dt))

/-- operator-level case: gate (over the regenerated registry) then the operator model -/
def runOpBinary (op : String) (_attrs : Json) (ins : List (Option DT)) : Answer :=
  match ins with
  | [some A, some B] => runBinary op A B
  | _ => { model := { status := "unmodelled" } }

end Drv

namespace Drv
open Gonnx

/-- C14: the broadcast helpers called directly -/
def runBcast (which : String) (A B : DT) : Answer :=
  let compat := Spec.Compatible A.t.shape B.t.shape
  let bs := Spec.bshape A.t.shape B.t.shape
  let tags := [if compat then "compatible" else "incompatible",
    if A.t.rank > B.t.rank then "A-longer" else if A.t.rank < B.t.rank then "B-longer" else "same-rank"]
  let mk (r : Res (Tensor Int × Tensor Int)) : Outcome := match r with
    | .ok (a, b) => { status := "ok", outs := [some (DT.mk A.dt a none), some (DT.mk B.dt b none)] }
    | .error e => .ofErr e
  let sA := ofFn bs fun idx => A.t.get (Spec.pin A.t.shape idx)
  let sB := ofFn bs fun idx => B.t.get (Spec.pin B.t.shape idx)
  if which == "multidir" then
    { model := mk (multidirBroadcast A.t B.t), tags,
      spec := if compat then { domain := "must", outs := some [some (DT.mk A.dt sA none), some (DT.mk B.dt sB none)] }
              else { domain := "mustRefuse" } }
  else
    { model := mk (unidirBroadcast A.t B.t), tags,
      spec := if compat && bs == A.t.shape then { domain := "must", outs := some [some A, some (DT.mk B.dt sB none)] }
              else { domain := "mustRefuse" } }

end Drv
