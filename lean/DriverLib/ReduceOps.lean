import DriverLib.ShapeOps
import Gonnx.Ops.Reduce
import Gonnx.Spec.Reduce
open Lean
namespace Drv
open Gonnx

def fmax (l : List Float) : Float := l.foldl (fun a b => if b > a then b else a) (l.headD 0.0)

def floatLane : LaneArith Float :=
  { exp := Float.exp, log := Float.log, add := (· + ·), sub := (· - ·), mul := (· * ·), div := (· / ·),
    zero := 0.0, one := 1.0, gt := fun a b => a > b }

/-- gorgonia's lane kernels (`Gonnx.softmaxLaneG` / `logSoftmaxLaneG`) on IEEE doubles -/
def softmaxLane (anchor : Float) (l : List Float) : List Float := softmaxLaneG floatLane anchor l

def logSoftmaxLane (anchor : Float) (l : List Float) : List Float := logSoftmaxLaneG floatLane anchor l

/-- gorgonia's float ArgMax lane kernel (`execution.ArgmaxF32/F64`): the scan RETURNS at the first NaN or
+Inf it meets behind position 0; otherwise strict `>` against the running maximum (never true while that
is NaN) -/
def gorgoniaArgmaxLane (l : List Float) : Nat :=
  match l with
  | [] => 0
  | x :: xs =>
    let rec go (best : Float) (bi : Nat) (i : Nat) : List Float → Nat
      | [] => bi
      | y :: ys => if y.isNaN || (y.isInf && y > 0.0) then i else if y > best then go y i (i+1) ys else go best bi (i+1) ys
    go x 0 1 xs

/-- ONNX / numpy.argmax on one lane: the first NaN if there is one, else the first occurrence of the maximum -/
def numpyArgmaxLane (l : List Float) : Nat :=
  match l.findIdx? Float.isNaN with
  | some i => i
  | none => argmaxList (fun a b => a < b) l

/-- ArgMax along a normalised axis with a lane function (index structure of `Spec.argmax`) -/
def argmaxWith (pick : List Float → Nat) (t : Tensor Float) (ax : Nat) (keepdims : Bool) : Tensor Int :=
  let n := dim t.shape ax
  let outShape := if keepdims then t.shape.set ax 1 else t.shape.eraseIdx ax
  ofFn outShape fun idx =>
    let elt (k : Nat) : Float := t.get (if keepdims then idx.set ax k else idx.take ax ++ [k] ++ idx.drop ax)
    ((pick ((List.range n).map elt) : Nat) : Int)

def runReduceOp (op : String) (attrs : Json) (ins : List (Option DT)) : Answer :=
  match op, ins with
  | "ArgMax", [some ⟨dt, _, some f⟩] =>
    -- float values with NaN / infinities / signed zeros (special-value stream): valid requests only
    let axis := attrInt attrs "axis" 0
    let keep := attrInt attrs "keepdims" 1 != 0
    let names := attrNames attrs
    match Spec.normAxis f.shape.length axis with
    | some ax =>
      if names.any (fun n => n != "axis" && n != "keepdims") || !(dt == .f32 || dt == .f64) || (f.shape.length == 1 && !keep) then
        { model := { status := "unmodelled" } }
      else
        let m := argmaxWith gorgoniaArgmaxLane f ax keep
        let sp := argmaxWith numpyArgmaxLane f ax keep
        { model := { status := "ok", outs := [some (DT.mk .i64 m none)] },
          spec := { domain := "must", outs := some [some (DT.mk .i64 sp none)] },
          tags := ["argmax-float", s!"rank{f.shape.length}", if keep then "keep" else "nokeep"],
          guard := if m.data != sp.data then ["argmax.scan_returns_at_first_nan_or_inf"] else [] }
    | none => { model := { status := "unmodelled" } }
  | "ArgMax", [some X] =>
    let names := attrNames attrs
    if names.any (fun n => n != "axis" && n != "keepdims" && n != "select_last_index") then
      { model := .ofErr .attr, spec := { domain := "mayRefuse" }, tags := ["bad-attr"] }
    else if attrInt attrs "select_last_index" 0 != 0 then
      { model := .ofErr .attr, spec := { domain := "mayRefuse" }, tags := ["select-last"] }
    else
      let axis := attrInt attrs "axis" 0
      let keep := attrInt attrs "keepdims" 1 != 0
      let sp := Spec.argmax (fun a b => decide (a ≤ b)) X.t axis keep
      let model : Outcome := match argmaxOp (fun a b => decide (a < b)) X.t axis keep with
        | .ok (t, m) => { status := "ok", outs := [some (DT.mk .i64 t none)], muts := match m with | some s => [(0, s)] | none => [] }
        | .error e => .ofErr e
      { model, tags := [s!"rank{X.t.rank}", s!"axis{axis}", if keep then "keep" else "nokeep"],
        spec := match sp with
          | some t => { domain := "must", outs := some [some (DT.mk .i64 t none)] }
          | none => { domain := "mayRefuse" },
        guard := if sp.isNone then ["argmax.axis_out_of_range"]
                 else (if !keep && X.t.rank == 1 then ["argmax.rank1_no_keepdims"] else []) }
  | "ReduceMax", [some ⟨_, _, some _⟩] | "ReduceMin", [some ⟨_, _, some _⟩] =>
    -- values carried bit for bit (NaN, infinities): how NaN ranks in a reduction is not specified by C09; only the
    -- purity of the operator is judged on these (C02)
    { model := { status := "unmodelled" }, spec := { domain := "unspecified", pure := true }, tags := ["float-bits"] }
  | "ReduceMax", [some X] | "ReduceMin", [some X] =>
    let names := attrNames attrs
    let isMax := op == "ReduceMax"
    let pick : Int → Int → Int := if isMax then max else min
    if names.length == 0 then
      { model := .ofErr .attr, tags := ["no-attrs"], guard := ["reduce.no_attributes"],
        spec := match Spec.reduce pick X.t [] true with
          | some t => { domain := "must", outs := some [some (DT.mk X.dt t none)] }
          | none => { domain := "mayRefuse" } }
    else if names.length > 2 || names.any (fun n => n != "axes" && n != "keepdims") then
      { model := .ofErr .attr, spec := { domain := "mayRefuse" }, tags := ["bad-attr"] }
    else
      let axes := (attrInts attrs "axes").getD []
      let keep := attrInt attrs "keepdims" 1 == 1
      let keepOnnx := attrInt attrs "keepdims" 1 != 0
      let better : Int → Int → Bool := if isMax then (fun a b => decide (a > b)) else (fun a b => decide (a < b))
      let sp := Spec.reduce pick X.t axes keepOnnx
      let r : Int := X.t.rank
      let dup := (axes.map fun a => if a < 0 then a + r else a).eraseDups.length != axes.length
      { model := okT X.dt (reduceOp better X.t axes keep),
        tags := [s!"rank{X.t.rank}", s!"naxes{axes.length}", if keep then "keep" else "nokeep"],
        spec := match sp with
          | some t => if dup || keep != keepOnnx then { domain := "unspecified" } else { domain := "must", outs := some [some (DT.mk X.dt t none)] }
          | none => { domain := "mayRefuse" },
        guard := if sp.isNone then ["reduce.axis_out_of_range"]
                 else if axes.isEmpty && keep then ["reduce.no_axes_keepdims"]
                 else if innerAxesOnly X.t.rank ((axes.map fun a => if a < 0 then a + r else a).map Int.toNat) then ["reduce.rank4_inner_axis_first"]
                 else [] }
  | "Softmax", [some X] | "LogSoftmax", [some X] =>
    if (attrNames attrs).length > 1 then { model := .ofErr .attr, spec := { domain := "mayRefuse" }, tags := ["attr-count"] }
    else
      let axis := match attrs with
        | .arr a => if a.size == 1 then getInt a[0]! "i" 0 else -1
        | _ => -1
      match X.fl with
      | none => { model := { status := "unmodelled" } }
      | some f =>
        let lane := if op == "Softmax" then softmaxLane else logSoftmaxLane
        -- the model comparison is restricted to magnitudes where exp neither overflows nor underflows in
        -- the element type (libm corner behaviour is not modelled); the property check on the
        -- implementation's output covers the whole range
        let lim : Float := if X.dt == .f32 then 40.0 else 300.0
        let model : Outcome := if f.data.any (fun x => x.abs > lim) then { status := "unmodelled" } else match softmaxOp lane f axis with
          | .ok t => { status := "ok", outs := [some (DT.ofFloat X.dt t)] }
          | .error e => .ofErr e
        { model, tags := [s!"rank{X.t.rank}", s!"axis{axis}"] }
  | _, _ => { model := { status := "unmodelled" } }

def isReduceOp (op : String) : Bool :=
  op == "ArgMax" || op == "ReduceMax" || op == "ReduceMin" || op == "Softmax" || op == "LogSoftmax"

end Drv
