import DriverLib.ShapeOps
import Gonnx.Ops.MatMul
import Gonnx.Spec.MatMul
open Lean
namespace Drv
open Gonnx

def intArith : Arith Int := { zero := 0, add := (· + ·), mul := (· * ·), sub := (· - ·) }

def attrFloatInt (attrs : Json) (name : String) (d : Int) : Option Int :=
  match attrs with
  | .arr a => match a.toList.find? (fun x => getStr x "name" == name) with
    | some x => match x.getObjVal? "f" with
      | .ok v => parseElem v
      | .error _ => some 0
    | none => some d
  | _ => some d

/-- a float attribute as a native float, rounded to float32 as the protobuf field stores it -/
def attrFloatF (attrs : Json) (name : String) (d : Float) : Float :=
  match attrs with
  | .arr a => match a.toList.find? (fun x => getStr x "name" == name) with
    | some x => match x.getObjVal? "f" with
      | .ok (.num n) => (n.toFloat).toFloat32.toFloat
      | _ => 0.0
    | none => d
  | _ => d

/-- float32 arithmetic on the float carrier: every operation rounds to float32 (the summation order of the
BLAS kernel is not modelled: compared with a tolerance, testing) -/
def f32Arith : Arith Float :=
  { zero := 0.0, add := fun a b => (a + b).toFloat32.toFloat, mul := fun a b => (a * b).toFloat32.toFloat,
    sub := fun a b => (a - b).toFloat32.toFloat }

def toFloatT (d : DT) : Tensor Float := match d.fl with | some f => f | none => ⟨d.t.shape, d.t.data.map Float.ofInt⟩

def attrFloatsInt (attrs : Json) (name : String) : Option (Option (List Int)) :=
  match attrs with
  | .arr a => match a.toList.find? (fun x => getStr x "name" == name) with
    | some x => match (getArr x "floats").toList.mapM parseElem with
      | some l => some (some l)
      | none => none
    | none => some none
  | _ => some none

def specOpt (dt : DType) (o : Option (Tensor Int)) (domSome : String) (domNone : String := "mustRefuse") : SpecOut :=
  match o with
  | some t => { domain := domSome, outs := some [some (DT.mk dt (if isInt dt then ⟨t.shape, t.data.map (wrap dt)⟩ else t) none)] }
  | none => { domain := domNone }

def isMatMulOp (op : String) : Bool := op == "MatMul" || op == "Gemm" || op == "LinearRegressor" || op == "Scaler"

/-- Gemm on the float carrier (float32 inputs with fractional / huge values, fractional alpha or beta) -/
def gemmFloat (attrs : Json) (A B : DT) (C : Option DT) : Answer :=
  let alpha := attrFloatF attrs "alpha" 1.0
  let beta := attrFloatF attrs "beta" 1.0
  let tA := attrInt attrs "transA" 0 != 0
  let tB := attrInt attrs "transB" 0 != 0
  let cf := C.map toFloatT
  let model : Outcome := match gemmOp f32Arith alpha beta tA tB (toFloatT A) (toFloatT B) cf with
    | .ok t => { status := "ok", outs := [some (DT.ofFloat .f32 t)] }
    | .error e => .ofErr e
  let spec : SpecOut := match Spec.gemm f32Arith alpha beta tA tB (toFloatT A) (toFloatT B) cf with
    | some t => { domain := "must", outs := some [some (DT.ofFloat .f32 t)] }
    | none => { domain := "mustRefuse" }
  { model, spec, tags := ["float", if tA then "tA" else "nA", if tB then "tB" else "nB"] }

def runMatMulOp (op : String) (attrs : Json) (ins : List (Option DT)) : Answer :=
  match op, ins with
  | "MatMul", [some ⟨_, _, some _⟩, some _] | "MatMul", [some _, some ⟨_, _, some _⟩] =>
    -- operands carried bit for bit: judged by the float reference of the comparator (checklib/floatref.py)
    { model := { status := "unmodelled" }, tags := ["float-bits"] }
  | "MatMul", [some A, some B] =>
    let tags := [s!"ra{A.t.rank}", s!"rb{B.t.rank}"]
    let sp := Spec.matmul intArith A.t B.t
    if A.dt != B.dt || !isFloat A.dt then
      { model := if A.t.rank == 0 || B.t.rank == 0 then { status := "unmodelled" } else .ofErr .gorgonia,
        spec := if A.dt == B.dt then specOpt A.dt sp "mayRefuse" "mayRefuse" else { domain := "mayRefuse" }, tags := tags ++ ["non-float"] }
    else
      let model := (okT A.dt (matmulOp intArith A.t B.t)).checkExact
      let r := A.t.rank
      let one := !(A.t.rank == 2 && B.t.rank == 2) &&
        (match sp with
         | some _ =>
           let sa := if A.t.rank == 1 then [1, dim A.t.shape 0] else A.t.shape
           let sb := if B.t.rank == 1 then [dim B.t.shape 0, 1] else B.t.shape
           let m := dim sa (sa.length - 2); let k := dim sa (sa.length - 1); let n := dim sb (sb.length - 1)
           m * k == 1 || k * n == 1
         | none => false)
      let _ := r
      { model, tags, guard := if one then ["matmul.batched_1x1"] else [],
        spec := specOpt A.dt sp (if A.dt == .f32 then "must" else "mayRefuse") }
  | "Gemm", [some A, some B, C] =>
    let names := attrNames attrs
    if names.any (fun n => !["alpha", "beta", "transA", "transB"].contains n) then
      { model := .ofErr .attr, spec := { domain := "mayRefuse" }, tags := ["bad-attr"] }
    else if A.dt == .f32 && B.dt == .f32 && (A.fl.isSome || B.fl.isSome || (match C with | some c => c.fl.isSome | none => false)) &&
        (match C with | some c => c.dt == .f32 | none => true) then
      gemmFloat attrs A B C
    else
      match attrFloatInt attrs "alpha" 1, attrFloatInt attrs "beta" 1 with
      | some alpha, some beta =>
        let tA := attrInt attrs "transA" 0 != 0
        let tB := attrInt attrs "transB" 0 != 0
        let sp := Spec.gemm intArith alpha beta tA tB A.t B.t (C.map (·.t))
        let dtsOk := A.dt == B.dt && (match C with | some c => c.dt == A.dt | none => true)
        let tags := [if tA then "tA" else "nA", if tB then "tB" else "nB", match C with | some c => s!"c{c.t.rank}" | none => "noC"]
        if !dtsOk || A.dt != .f32 then
          -- other element types: refused today (alpha is a float32 scalar); if ever computed, it must be the ONNX value
          { model := if A.t.rank == 2 && B.t.rank == 2 then .ofErr .gorgonia else { status := "unmodelled" },
            spec := if dtsOk then specOpt A.dt sp "mayRefuse" "mayRefuse" else { domain := "mayRefuse" }, tags := tags ++ ["non-f32"] }
        else
          { model := (okT A.dt (gemmOp intArith alpha beta tA tB A.t B.t (C.map (·.t)))).checkExact, tags,
            spec := specOpt A.dt sp "must" }
      | _, _ =>
        -- fractional alpha / beta: float carrier
        if A.dt == .f32 && B.dt == .f32 && (match C with | some c => c.dt == .f32 | none => true) then
          gemmFloat attrs A B C
        else { model := { status := "inexact" } }
  | "LinearRegressor", [some ⟨_, _, some _⟩] | "Scaler", [some ⟨_, _, some _⟩] =>
    { model := { status := "unmodelled" }, tags := ["float-bits"] }
  | "LinearRegressor", [some X] =>
    let names := attrNames attrs
    if names.contains "post_transform" || names.any (fun n => !["coefficients", "intercepts", "targets", "post_transform"].contains n) then
      { model := .ofErr .attr, spec := { domain := "mayRefuse" }, tags := ["bad-attr"] }
    else
      match attrFloatsInt attrs "coefficients", attrFloatsInt attrs "intercepts" with
      | some coef, some icpt =>
        let targets := attrInt attrs "targets" 1
        match coef, icpt with
        | some coef, some icpt =>
          if targets < 0 then { model := { status := "unmodelled" }, spec := { domain := "unspecified" } }
          else if X.dt != .f32 then { model := { status := "unmodelled" }, spec := { domain := "mayRefuse" }, tags := ["non-f32"] }
          else
            { model := (okT X.dt (linregOp intArith coef icpt targets.toNat X.t)).checkExact,
              spec := specOpt X.dt (Spec.linreg intArith coef icpt targets.toNat X.t) "must", tags := [s!"t{targets}"],
              guard := if targets == 0 then ["linreg.zero_targets"] else [] }
        | some coef, none =>
          -- no intercepts: the product comes first (its shape errors are reported), the nil intercepts panic after it
          let model : Outcome :=
            if targets ≤ 0 then .ofErr .panic
            else if X.dt != .f32 then .ofErr .gorgonia     -- the product refuses operands of different types (coefficients are float32)
            else match linregOp intArith coef [0] targets.toNat X.t with
              | .error e => .ofErr e
              | .ok _ => .ofErr .panic
          { model, spec := { domain := "mayRefuse" }, tags := ["missing-attr"], guard := ["linreg.no_intercepts"] }
        | _, _ =>
          { model := .ofErr .panic, spec := { domain := "mayRefuse" }, tags := ["missing-attr"],
            guard := [if coef.isNone then "linreg.no_coefficients" else "linreg.no_intercepts"] }
      | _, _ => { model := { status := "inexact" } }
  | "Scaler", [some X] =>
    let names := attrNames attrs
    if names.length != 2 then { model := .ofErr .attr, spec := { domain := "mayRefuse" }, tags := ["attr-count"] }
    else if names.any (fun n => n != "offset" && n != "scale") then { model := .ofErr .attr, spec := { domain := "mayRefuse" }, tags := ["bad-attr"] }
    else
      match attrFloatsInt attrs "offset", attrFloatsInt attrs "scale" with
      | some (some off), some (some sc) =>
        if X.dt != .f32 then { model := { status := "unmodelled" }, spec := { domain := "mayRefuse" }, tags := ["non-f32"] }
        else
          { model := (okT X.dt (scalerOp intArith off sc X.t)).checkExact, tags := [s!"rank{X.t.rank}"],
            spec := specOpt X.dt (Spec.scaler intArith off sc X.t) "must" }
      | _, _ => { model := { status := "unmodelled" } }
  | _, _ => { model := { status := "unmodelled" } }

end Drv
