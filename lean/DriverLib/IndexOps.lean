import DriverLib.ShapeOps
import Gonnx.Ops.Index
import Gonnx.Spec.Index
open Lean
namespace Drv
open Gonnx

def specOfOpt (dt : DType) (dom : String) (o : Option (Tensor Int)) : SpecOut :=
  match o with
  | some t => { domain := dom, outs := some [some (DT.mk dt t none)] }
  | none => { domain := "mustRefuse" }

def runIndexOp (op : String) (attrs : Json) (ins : List (Option DT)) : Answer :=
  match op, ins with
  | "Transpose", [some X] =>
    let names := attrNames attrs
    if names.length != 1 then { model := .ofErr .attr, spec := { domain := "mayRefuse" }, tags := ["attr-count"] }
    else if names != ["perm"] then { model := .ofErr .attr, spec := { domain := "mayRefuse" }, tags := ["attr-name"] }
    else
      let perm := (attrInts attrs "perm").getD []
      { model := okT X.dt (transposeOp X.t perm), spec := specOfOpt X.dt "must" (Spec.transpose X.t perm),
        guard := if Spec.isPerm X.t.rank perm then [] else ["transpose.invalid_perm"],
        tags := [s!"rank{X.t.rank}", if Spec.isPerm X.t.rank perm then "perm" else "not-perm"] }
  | "Slice", [some X, some S, some E, A, St] =>
    let axes := A.map (·.t.data)
    let steps := St.map (·.t.data)
    let starts := S.t.data
    let ends := E.t.data
    let model := okT X.dt (sliceOp X.t starts ends axes steps)
    let axesL := axes.getD ((List.range starts.length).map fun (i : Nat) => (i : Int))
    let stepsL := steps.getD (List.replicate starts.length 1)
    let r : Int := X.t.rank
    let sp := Spec.slice X.t starts ends axesL stepsL
    -- must-domain of DESIGN section 8: non-negative start below min(end, dim), step >= 1, axes in range
    let inMust := sp.isSome && (List.range starts.length).all fun i =>
      let a := axesL.getD i 0
      let a := if a < 0 then a + r else a
      let d : Int := dim X.t.shape a.toNat
      let s := starts.getD i 0
      let e := ends.getD i 0
      0 ≤ s && s < d && s < e && stepsL.getD i 1 ≥ 1
    let guard : List String :=
      match sp with
      | none => if axesL.any (fun a => a < -r ∨ a ≥ r) then ["slice.axis_out_of_range"] else ["slice.invalid_request"]
      | some t =>
        if !inMust then
          -- which clause of the must-domain fails (first match), so that findings are keyed narrowly
          let reason := (List.range starts.length).foldl (fun (acc : String) i =>
            if acc != "" then acc else
            let a := axesL.getD i 0
            let a := if a < 0 then a + r else a
            let d : Int := dim X.t.shape a.toNat
            let s := starts.getD i 0
            let e := ends.getD i 0
            let st := stepsL.getD i 1
            if st < 0 then "negative_step" else if s < 0 ∨ e < 0 then "negative_index"
            else if s ≥ d then "start_ge_dim" else if s ≥ e then "empty_result" else "") ""
          ["slice.outside_must_domain." ++ reason]
        else
          -- hypotheses of the partial theorem: no sliced axis of result extent 1; step divides the extent on axis 0
          let ext1 := (List.range starts.length).any fun i =>
            let a := axesL.getD i 0
            let a := (if a < 0 then a + r else a).toNat
            dim t.shape a == 1
          let ax0 := (List.range starts.length).any fun i =>
            let a := axesL.getD i 0
            let a := (if a < 0 then a + r else a).toNat
            let d : Int := dim X.t.shape 0
            let e := ends.getD i 0
            let e := if e > d then d else e
            a == 0 && (e - starts.getD i 0) % stepsL.getD i 1 != 0
          (if ext1 then ["slice.extent1_axis"] else []) ++ (if ax0 then ["slice.axis0_step_remainder"] else [])
    { model, guard, tags := [s!"rank{X.t.rank}", s!"n{starts.length}", if inMust then "must" else "outside"],
      spec := match sp with
        | none => { domain := "mustRefuse" }
        | some t => { domain := if inMust then "must" else "mayRefuse", outs := some [some (DT.mk X.dt t none)] } }
  | "Gather", [some X, some I] =>
    let names := attrNames attrs
    if names.length > 1 then { model := .ofErr .attr, spec := { domain := "mayRefuse" }, tags := ["attr-count"] }
    else if names.length == 1 && names != ["axis"] then { model := .ofErr .attr, spec := { domain := "mayRefuse" }, tags := ["attr-name"] }
    else
      let axis := attrInt attrs "axis" 0
      { model := okT X.dt (gatherOp X.t I.t axis), spec := specOfOpt X.dt "must" (Spec.gather X.t I.t axis),
        tags := [s!"rank{X.t.rank}", s!"irank{I.t.rank}", s!"axis{axis}"] }
  | "Expand", [some X, some S] =>
    if S.t.rank != 1 || S.t.data.isEmpty then
      { model := if prod S.t.shape == 0 then .ofErr .panic else if S.t.rank == 0 then .ofErr .cast else { status := "unmodelled" },
        spec := { domain := "mayRefuse" }, tags := ["shape-not-1d-or-empty"], guard := ["expand.shape_tensor_not_1d_or_empty"] }
    else if S.t.data.any (· < 1) then
      { model := { status := "unmodelled" }, spec := { domain := "unspecified" }, tags := ["nonpositive-target"] }
    else
      let target := S.t.data.map Int.toNat
      let sp := Spec.expand X.t target
      let shorter := target.length < X.t.rank
      { model := okT X.dt (expandOp X.t S.t.data),
        spec := match sp with
          | none => { domain := "mustRefuse" }
          | some t => { domain := if shorter then "mayRefuse" else "must", outs := some [some (DT.mk X.dt t none)] },
        guard := if sp.isNone then ["expand.incompatible_target"] else if shorter then ["expand.shorter_target"] else [],
        tags := [s!"rank{X.t.rank}", s!"trank{target.length}", if sp.isSome then "compatible" else "incompatible"] }
  | _, _ => { model := { status := "unmodelled" } }

/-- Concat takes any number of inputs -/
def runConcat (attrs : Json) (ins : List (Option DT)) : Answer :=
  let names := attrNames attrs
  if names.length != 1 then { model := .ofErr .attr, spec := { domain := "mayRefuse" }, tags := ["attr-count"] }
  else
    match ins.mapM id with
    | none => { model := { status := "unmodelled" } }
    | some ts =>
      let axis := match attrs with
        | .arr a => getInt (a.getD 0 Json.null) "i" 0
        | _ => 0
      match ts with
      | [] => { model := { status := "unmodelled" } }
      | t0 :: _ =>
        if !(ts.all fun t => t.dt == t0.dt) then
          { model := if ts.length == 1 then { status := "unmodelled" } else .ofErr .panic, spec := { domain := "mustRefuse" },
            tags := ["mixed-dtype"], guard := ["concat.mixed_dtypes"] }
        else
          let model : Outcome := match concatOp axis (ts.map (·.t)) with
            | .ok t => { status := "ok", outs := [some (DT.mk t0.dt t none)] }
            | .error e => .ofErr e
          { model, spec := specOfOpt t0.dt "must" (Spec.concat axis (ts.map (·.t))),
            -- the two recorded findings, by their CONDITION: one input (returned without looking at the axis), and
            -- axis = -rank-1 with several inputs (gorgonia's AllAxes: panic); every other invalid request must be refused
            guard := if (Spec.concat axis (ts.map (·.t))).isNone then
                (if ts.length == 1 then ["concat.single_input_axis_unchecked"]
                 else if axis == -(t0.t.rank : Int) - 1 then ["concat.axis_minus_rank_minus_one"] else [])
              else [],
            tags := [s!"n{ts.length}", s!"rank{t0.t.rank}", s!"axis{axis}"] }

def isIndexOp (op : String) : Bool :=
  op == "Transpose" || op == "Slice" || op == "Gather" || op == "Expand"

end Drv
