import DriverLib.Ops
import Gonnx.Ops.Shape
import Gonnx.Spec.Shape
open Lean
namespace Drv
open Gonnx

def attrInt (attrs : Json) (name : String) (d : Int) : Int :=
  match attrs with
  | .arr a => match a.toList.find? (fun x => getStr x "name" == name) with
    | some x => getInt x "i" 0
    | none => d
  | _ => d

def attrInts (attrs : Json) (name : String) : Option (List Int) :=
  match attrs with
  | .arr a => match a.toList.find? (fun x => getStr x "name" == name) with
    | some x => some (jsonInts (getArr x "ints"))
    | none => none
  | _ => none

def attrStr (attrs : Json) (name : String) (d : String) : String :=
  match attrs with
  | .arr a => match a.toList.find? (fun x => getStr x "name" == name) with
    | some x => getStr x "s"
    | none => d
  | _ => d

def attrNames (attrs : Json) : List String :=
  match attrs with
  | .arr a => a.toList.map fun x => getStr x "name"
  | _ => []

def okT (dt : DType) (r : Res (Tensor Int)) : Outcome :=
  match r with
  | .ok t => { status := "ok", outs := [some (DT.mk dt (if isInt dt then ⟨t.shape, t.data.map (wrap dt)⟩ else t) none)] }
  | .error e => .ofErr e

/-- spec outcome of a reshape-like operator: same data, prescribed shape, or refusal -/
def reshapeSpec (X : DT) (s : Option (List Nat)) : SpecOut :=
  match s with
  | some sh => { domain := "must", outs := some [some (DT.mk X.dt ⟨sh, X.t.data⟩ none)] }
  | none => { domain := "mustRefuse" }

def runShapeOp (op : String) (attrs : Json) (ins : List (Option DT)) : Answer :=
  match op, ins with
  | "Reshape", [some X, some S] =>
    let tags := [s!"rank{X.t.rank}", if S.t.data.contains (-1) then "minus1" else "no-minus1",
      if S.t.data.contains 0 then "zero" else "no-zero"]
    if S.t.rank != 1 || S.t.data.isEmpty then
      { model := okT X.dt (reshapeOp X.t S.t), spec := { domain := "mayRefuse" }, tags := tags ++ ["shape-not-1d-or-empty"],
        guard := [if S.t.data.isEmpty then "reshape.empty_shape_tensor" else "reshape.shape_tensor_not_1d"] }
    else
      let sp := Spec.reshapeShape X.t.shape S.t.data
      { model := okT X.dt (reshapeOp X.t S.t), spec := reshapeSpec X sp, tags,
        guard := if S.t.data.any (· < -1) then ["reshape.negative_dim"] else if S.t.data.isEmpty then ["reshape.empty_shape"] else [] }
  | "Flatten", [some X] =>
    if (attrNames attrs).any (· != "axis") then { model := .ofErr .attr, spec := { domain := "mayRefuse" }, tags := ["bad-attr"] }
    else
      let axis := attrInt attrs "axis" 1
      let sp := Spec.flattenShape X.t.shape axis
      { model := okT X.dt (flattenOp X.t axis), spec := reshapeSpec X sp, tags := [s!"rank{X.t.rank}", s!"axis{axis}"],
        guard := if sp.isNone then ["flatten.axis_out_of_range"] else if X.t.rank == 0 then ["flatten.scalar"] else [] }
  | "Squeeze", [some X, axes] =>
    let tags := [s!"rank{X.t.rank}", if axes.isSome then "axes" else "no-axes"]
    match axes with
    | some A =>
      if A.t.rank != 1 || A.t.data.isEmpty then
        { model := okT X.dt (squeezeOp X.t (some A.t)), spec := { domain := "mayRefuse" }, tags := tags ++ ["axes-not-1d-or-empty"],
          guard := [if A.t.data.isEmpty then "squeeze.empty_axes_tensor" else "squeeze.axes_not_1d"] }
      else
        let sp := Spec.squeezeShape X.t.shape (some A.t.data)
        let r : Int := X.t.rank
        { model := okT X.dt (squeezeOp X.t (some A.t)), spec := reshapeSpec X sp, tags,
          guard := if A.t.data.any (fun a => a < -r ∨ a ≥ r) then ["squeeze.axis_out_of_range"]
                   else
                     -- only a genuinely duplicated axis is the recorded finding; an axis of extent ≠ 1 is not
                     let nax := A.t.data.map fun a => if a < 0 then a + r else a
                     if nax.eraseDups.length ≠ nax.length then ["squeeze.duplicate_axes"] else [] }
    | none =>
      { model := okT X.dt (squeezeOp X.t none), spec := reshapeSpec X (Spec.squeezeShape X.t.shape none), tags }
  | "Unsqueeze", [some X, some A] =>
    let tags := [s!"rank{X.t.rank}", s!"naxes{A.t.data.length}"]
    if A.t.rank != 1 || A.t.data.isEmpty then
      { model := okT X.dt (unsqueezeOp X.t A.t), spec := { domain := "mayRefuse" }, tags := tags ++ ["axes-not-1d-or-empty"],
        guard := [if A.t.data.isEmpty then "unsqueeze.empty_axes_tensor" else "unsqueeze.axes_not_1d"] }
    else
      { model := okT X.dt (unsqueezeOp X.t A.t), spec := reshapeSpec X (Spec.unsqueezeShape X.t.shape A.t.data), tags }
  | "Shape", [some X] =>
    { model := okT .i64 (shapeOp X.t), tags := [s!"rank{X.t.rank}"],
      spec := { domain := "must", outs := some [some (DT.mk .i64 ⟨[X.t.rank], X.t.shape.map (fun (d : Nat) => (d : Int))⟩ none)] },
      guard := [] }
  | _, _ => { model := { status := "unmodelled" } }

def isShapeOp (op : String) : Bool :=
  op == "Reshape" || op == "Flatten" || op == "Squeeze" || op == "Unsqueeze" || op == "Shape"

end Drv
