import DriverLib.Ops
import Gonnx.Graph.Validate
import Gonnx.Graph.Decode
import Gonnx.Graph.NewModel
import Gonnx.Spec.Run
import DriverLib.Dispatch
/-
Graph-level cases of the driver.
-/
open Lean
namespace Drv
open Gonnx

def parseDimDecl (v : Json) : DimDecl :=
  match v with
  | .num n => DimDecl.ofValue n.mantissa
  | _ => DimDecl.ofValue 0        -- symbolic or unspecified: dim_value is 0

def parseInputDecl (j : Json) : InputDecl :=
  let noshape := match j.getObjVal? "noshape" with | .ok (.bool b) => b | _ => false
  { name := getStr j "name",
    shape := if noshape then none else some ((getArr j "dims").toList.map parseDimDecl) }

def runValidate (j : Json) : Answer :=
  let g := getObj j "graph"
  let decls := (getArr g "inputs").toList.map parseInputDecl
  let params := (getArr g "inits").toList.map fun i => getStr i "name"
  let sup := (getArr (getObj j "p") "supplied").toList.map fun s => (getStr s "name", jsonNats (getArr s "shape"))
  match validateShapes decls params sup with
  | .ok () => { model := { status := "ok" } }
  | .error e => { model := .ofErr e }

end Drv

namespace Drv
open Lean Gonnx

def jsonIntList (j : Json) (k : String) : List Int := jsonInts (getArr j k)

def parseTP (j : Json) : TensorProtoM :=
  { dataType := getInt j "data_type", dims := jsonIntList j "dims",
    floatData := jsonNats (getArr j "float_data"), int32Data := jsonIntList j "int32_data",
    int64Data := jsonIntList j "int64_data", doubleData := jsonNats (getArr j "double_data"),
    uint64Data := jsonNats (getArr j "uint64_data"), rawData := jsonNats (getArr j "raw") }

def runDecode (j : Json) : Json :=
  let tp := parseTP (getObj (getObj j "p") "tp")
  match decode tp with
  | .ok d => Json.mkObj [("status", "ok"), ("dt", dtToString d.dt),
      ("shape", Json.arr (d.shape.map (fun (n : Nat) => toJson n)).toArray),
      ("bits", Json.arr (d.bits.map (fun (n : Nat) => toJson n)).toArray)]
  | .error e => errJson e

end Drv

namespace Drv
open Lean Gonnx

/-- operator semantics of node `i` for the driver: the operator-level model -/
def nodeSem (nodes : Array Json) (i : Nat) (ins : List (Option DT)) : Res (List (Option DT)) :=
  let n := nodes.getD i Json.null
  let op := getStr n "op"
  let nOut := (getArr n "outs").size
  let a := runOp op (getObj n "attrs") ins nOut
  match a.model.status with
  | "ok" => .ok a.model.outs
  | "error" => .error (a.model.err.getD .other)
  | "panic" => .error .panic
  | _ => .error .unmodelled

def strList (a : Array Json) : List String := a.toList.map fun v => match v with | .str s => s | _ => ""

def parseGraph (g : Json) : Option (Graph DT) :=
  let nodes := (getArr g "nodes").toList.map fun n => ({ ins := strList (getArr n "ins"), outs := strList (getArr n "outs") } : GNode)
  let decls := (getArr g "inputs").toList.map parseInputDecl
  let inits := (getArr g "inits").toList.mapM fun i => match parseTensor (getObj i "t") with
    | some (some d) => some (getStr i "name", d)
    | _ => none
  inits.map fun is => { nodes, decls, outputs := strList (getArr g "outputs"), inits := is }

def dtShape (d : DT) : List Nat := match d.fl with | some f => f.shape | none => d.t.shape

def runGraph (j : Json) : Json :=
  let gj := getObj j "graph"
  let supplied := (getArr (getObj j "p") "inputs").toList.mapM fun s => match parseTensor (getObj s "t") with
    | some (some d) => some (getStr s "name", d)
    | _ => none
  match parseGraph gj, supplied with
  | some g, some ins =>
    let sem := nodeSem (getArr gj "nodes")
    let outJson (r : Res (List (String × DT))) : Json := match r with
      | .ok outs => Json.mkObj [("status", "ok"), ("outs", Json.arr (outs.map fun (_, d) => tensorJson d).toArray)]
      | .error e => errJson e
    let model := run dtShape sem g ins
    -- the demand-driven value of every declared output
    let spec : Res (List (String × DT)) := g.outputs.mapM fun o =>
      match Spec.value sem g ins (g.nodes.length + 1) o with
      | .ok (some v) => .ok (o, v)
      | .ok none => .error .model
      | .error e => .error e
    Json.mkObj [("model", outJson model), ("spec", outJson spec)]
  | _, _ => Json.mkObj [("model", Json.mkObj [("status", "inexact")])]

end Drv

namespace Drv
open Lean Gonnx

/-- C18: the parsed ModelProto (the harness unmarshals the bytes itself) -/
def runLoad (j : Json) : Json :=
  let p := getObj j "p"
  match p.getObjVal? "parsed" with
  | .ok mp =>
    let m : ModelProtoM := {
      hasGraph := match mp.getObjVal? "has_graph" with | .ok (.bool b) => b | _ => true,
      initializers := (getArr mp "initializers").toList.map parseTP,
      opsetVersions := jsonInts (getArr mp "opsets") }
    match newModel Generated.supportedOpsets m with
    | .ok (ps, v) => Json.mkObj [("status", "ok"), ("n_params", toJson ps.length), ("opset", toJson v)]
    | .error e => errJson e
  | .error _ => Json.mkObj [("status", "unmodelled")]

end Drv
