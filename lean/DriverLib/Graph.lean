import DriverLib.Ops
import Gonnx.Graph.Validate
import Gonnx.Graph.Decode
/-
Graph-level cases of the driver.
-/
open Lean
namespace Drv
open Gonnx

def parseDimDecl (v : Json) : DimDecl :=
  match v with
  | .num n => DimDecl.ofValue n.mantissa
  | _ => DimDecl.ofValue 0        -- symbolic or unspecified: dim_value is 0

def parseInputDecl (j : Json) : InputDecl :=
  let noshape := match j.getObjVal? "noshape" with | .ok (.bool b) => b | _ => false
  { name := getStr j "name",
    shape := if noshape then none else some ((getArr j "dims").toList.map parseDimDecl) }

def runValidate (j : Json) : Answer :=
  let g := getObj j "graph"
  let decls := (getArr g "inputs").toList.map parseInputDecl
  let params := (getArr g "inits").toList.map fun i => getStr i "name"
  let sup := (getArr (getObj j "p") "supplied").toList.map fun s => (getStr s "name", jsonNats (getArr s "shape"))
  match validateShapes decls params sup with
  | .ok () => { model := { status := "ok" } }
  | .error e => { model := .ofErr e }

end Drv

namespace Drv
open Lean Gonnx

def jsonIntList (j : Json) (k : String) : List Int := jsonInts (getArr j k)

def parseTP (j : Json) : TensorProtoM :=
  { dataType := getInt j "data_type", dims := jsonIntList j "dims",
    floatData := jsonNats (getArr j "float_data"), int32Data := jsonIntList j "int32_data",
    int64Data := jsonIntList j "int64_data", doubleData := jsonNats (getArr j "double_data"),
    uint64Data := jsonNats (getArr j "uint64_data"), rawData := jsonNats (getArr j "raw") }

def runDecode (j : Json) : Json :=
  let tp := parseTP (getObj (getObj j "p") "tp")
  match decode tp with
  | .ok d => Json.mkObj [("status", "ok"), ("dt", dtToString d.dt),
      ("shape", Json.arr (d.shape.map (fun (n : Nat) => toJson n)).toArray),
      ("bits", Json.arr (d.bits.map (fun (n : Nat) => toJson n)).toArray)]
  | .error e => errJson e

end Drv
