import DriverLib.Ops
import Gonnx.Graph.Validate
/-
Graph-level cases of the driver.
-/
open Lean
namespace Drv
open Gonnx

def parseDimDecl (v : Json) : DimDecl :=
  match v with
  | .num n => DimDecl.ofValue n.mantissa
  | _ => DimDecl.ofValue 0        -- symbolic or unspecified: dim_value is 0

def parseInputDecl (j : Json) : InputDecl :=
  let noshape := match j.getObjVal? "noshape" with | .ok (.bool b) => b | _ => false
  { name := getStr j "name",
    shape := if noshape then none else some ((getArr j "dims").toList.map parseDimDecl) }

def runValidate (j : Json) : Answer :=
  let g := getObj j "graph"
  let decls := (getArr g "inputs").toList.map parseInputDecl
  let params := (getArr g "inits").toList.map fun i => getStr i "name"
  let sup := (getArr (getObj j "p") "supplied").toList.map fun s => (getStr s "name", jsonNats (getArr s "shape"))
  match validateShapes decls params sup with
  | .ok () => { model := { status := "ok" } }
  | .error e => { model := .ofErr e }

end Drv
