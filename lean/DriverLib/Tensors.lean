import DriverLib.Json
import Gonnx.Kernel
import Gonnx.Ops.IntWrap
/-
Driver-side tensors: element values are carried as `Int` (exact regime: every value is an exactly
representable integer; bool is 0/1) together with the element type.
-/
open Lean
namespace Drv
open Gonnx

structure DT where
  dt : DType
  t : Tensor Int
  fl : Option (Tensor Float) := none   -- float streams: the values as native floats (then `t` only carries the shape)

instance : Inhabited Float := ⟨0.0⟩

/-- parse one element; `none` when it is not an integer (NaN, Inf, fraction): outside the exact regime -/
def parseElem (v : Json) : Option Int :=
  match v with
  | .num n => if n.exponent == 0 then some n.mantissa else
      -- allow e.g. 1.0 written with an exponent
      let p := (10 : Int) ^ n.exponent
      if n.mantissa % p == 0 then some (n.mantissa / p) else none
  | .str s => s.toInt?
  | _ => none

def parseTensor (j : Json) : Option (Option DT) :=
  match j with
  | .null => some none
  | _ =>
    let dt := dtOfString (getStr j "dt")
    let shape := jsonNats (getArr j "shape")
    let bits := getArr j "bits"
    if bits.size > 0 then
      let fl : List Float := bits.toList.map fun b => Float.ofBits ((b.getNat?).toOption.getD 0).toUInt64
      some (some ⟨dt, ⟨shape, []⟩, some ⟨shape, fl⟩⟩)
    else
      match (getArr j "data").toList.mapM parseElem with
      | none => none
      | some d => some (some ⟨dt, ⟨shape, d⟩, none⟩)

def tensorJson (d : DT) : Json :=
  match d.fl with
  | some f =>
    Json.mkObj [("dt", dtToString d.dt), ("shape", Json.arr (f.shape.map (fun (n : Nat) => toJson n)).toArray),
      ("bits", Json.arr (f.data.map (fun (x : Float) => toJson x.toBits.toNat)).toArray)]
  | none =>
    Json.mkObj [("dt", dtToString d.dt), ("shape", Json.arr (d.t.shape.map (fun (n : Nat) => toJson n)).toArray),
      ("data", Json.arr (d.t.data.map (fun (n : Int) => toJson n)).toArray)]

/-- a float result -/
def DT.ofFloat (dt : DType) (f : Tensor Float) : DT := ⟨dt, ⟨f.shape, []⟩, some f⟩

def optTensorJson : Option DT → Json
  | none => Json.null
  | some d => tensorJson d

/-- two's-complement / unsigned wrap-around of an integer result to the element type (`Gonnx.wrapTo`,
characterised in `Gonnx/Theorems/C03b.lean`); floats are left alone (exactness is checked separately) -/
def wrap (dt : DType) (v : Int) : Int := Gonnx.wrapTo dt v

def isFloat (dt : DType) : Bool := dt == .f32 || dt == .f64
def isInt (dt : DType) : Bool :=
  dt == .i8 || dt == .i16 || dt == .i32 || dt == .i64 || dt == .u8 || dt == .u16 || dt == .u32 || dt == .u64

/-- is every value exactly representable in the element type? -/
def exactIn (d : DT) : Bool :=
  match d.dt with
  | .f32 => d.t.data.all fun v => v.natAbs ≤ 16777216
  | .f64 => d.t.data.all fun v => v.natAbs ≤ 9007199254740992
  | .bool => d.t.data.all fun v => v == 0 || v == 1
  | _ => true

/-- outcome of a model or spec evaluation in the driver -/
structure Outcome where
  status : String            -- ok error panic inexact unmodelled
  err : Option Err := none
  outs : List (Option DT) := []
  muts : List (Nat × List Nat) := []     -- header mutations of inputs (position, new shape)
  alias : List (Nat × Nat) := []

def Outcome.ofErr (e : Err) : Outcome :=
  if e == .panic then { status := "panic" } else if e == .unmodelled then { status := "unmodelled" }
  else { status := "error", err := some e }

def Outcome.json (o : Outcome) : Json :=
  let base : List (String × Json) := [("status", o.status)]
  let base := match o.err with | some e => base ++ [("errkind", Json.str (errToString e))] | none => base
  let base := if o.status == "ok" then base ++ [("outs", Json.arr (o.outs.map optTensorJson).toArray),
      ("mut", Json.arr (o.muts.map fun (i, s) => Json.mkObj [("input", toJson i), ("what", "shape"),
        ("shape", Json.arr (s.map (fun (n : Nat) => toJson n)).toArray)]).toArray)] else base
  Json.mkObj base

def Outcome.checkExact (o : Outcome) : Outcome :=
  if o.status == "ok" && !(o.outs.all fun x => match x with | none => true | some d => exactIn d)
  then { status := "inexact" } else o

end Drv
