import Lean.Data.Json
import Gonnx.Gate
/-
JSON plumbing of the driver: parsing cases, printing results. Not part of the model.
-/
open Lean
namespace Drv
open Gonnx

def dtOfString : String → DType
  | "u8" => .u8 | "u16" => .u16 | "u32" => .u32 | "u64" => .u64
  | "i8" => .i8 | "i16" => .i16 | "i32" => .i32 | "i64" => .i64
  | "f32" => .f32 | "f64" => .f64 | "c64" => .c64 | "c128" => .c128
  | "str" => .str | "bool" => .bool | _ => .other

def dtToString : DType → String
  | .u8 => "u8" | .u16 => "u16" | .u32 => "u32" | .u64 => "u64"
  | .i8 => "i8" | .i16 => "i16" | .i32 => "i32" | .i64 => "i64"
  | .f32 => "f32" | .f64 => "f64" | .c64 => "c64" | .c128 => "c128"
  | .str => "str" | .bool => "bool" | .other => "other"

def errToString : Err → String
  | .inputCount => "input.count" | .inputType => "input.type"
  | .inputUnsupported => "input.unsupported" | .inputInvalid => "input.invalid"
  | .attr => "attr" | .broadcast => "broadcast" | .shape => "shape" | .axis => "axis"
  | .cast => "cast" | .conversion => "conversion" | .activation => "activation"
  | .invalidTensor => "invalidTensor" | .model => "model" | .unsupportedOp => "unsupportedOp"
  | .unsupportedOpset => "unsupportedOpset" | .invalidType => "invalidType"
  | .gorgonia => "gorgonia" | .other => "other" | .panic => "panic" | .unmodelled => "unmodelled"

def getStr (j : Json) (k : String) : String :=
  match j.getObjVal? k with
  | .ok (.str s) => s
  | _ => ""

def getArr (j : Json) (k : String) : Array Json :=
  match j.getObjVal? k with
  | .ok (.arr a) => a
  | _ => #[]

def getInt (j : Json) (k : String) (d : Int := 0) : Int :=
  match j.getObjVal? k with
  | .ok v => (v.getInt?).toOption.getD d
  | _ => d

def getObj (j : Json) (k : String) : Json :=
  match j.getObjVal? k with
  | .ok v => v
  | _ => Json.null

def jsonInts (a : Array Json) : List Int :=
  a.toList.map fun v => (v.getInt?).toOption.getD 0

def jsonNats (a : Array Json) : List Nat :=
  a.toList.map fun v => ((v.getInt?).toOption.getD 0).toNat

/-- status object for an error / panic outcome -/
def errJson (e : Err) : Json :=
  if e == .panic then Json.mkObj [("status", "panic")]
  else if e == .unmodelled then Json.mkObj [("status", "unmodelled")]
  else Json.mkObj [("status", "error"), ("errkind", errToString e)]

def optDtJson : Option DType → Json
  | none => Json.null
  | some d => Json.str (dtToString d)

end Drv
